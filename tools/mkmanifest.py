#!/usr/bin/env python3
"""regenerate MANIFEST.json from the unit registry (claimed = properties with at least one unit) + static texts"""
import json, os, sys, importlib.util
V = os.path.dirname(os.path.dirname(os.path.abspath(__file__)))
spec = importlib.util.spec_from_file_location('units', os.path.join(V, 'contracts', 'units.py'))
U = importlib.util.module_from_spec(spec); spec.loader.exec_module(U)
texts = json.load(open(os.path.join(V, 'contracts', 'claims.json')))
claimed = sorted({p for u in U.units() for p in u['props']})
props = [json.loads(l)['id'] for l in open(os.path.join(V, 'properties.jsonl'))]
checks, na = [], []
for p in props:
    t = texts.get(p, {})
    if p in claimed and t.get('claim'):
        checks.append({
            'property_id': p,
            'quick_cmd': './check %s --tier quick' % p,
            'thorough_cmd': './check %s --tier thorough' % p,
            'evidence_file': 'evidence/%s.json' % p,
            'replay_cmd_template': './check %s --replay {path}' % p,
            'engine': 'cbmc-dfcc',
            'level_claimed': {'category': 'proof', 'text': t.get('text', 'contracts on the lowered real code discharged by CBMC dfcc'), 'design_ref': t.get('design_ref', 'DESIGN.md section 4')},
            'level_note': t.get('note', 'trusted: clang AST, cxx2c lowering, L0 ghost semantics of std:: primitives, CBMC/dfcc/CaDiCaL'),
            'technique': t.get('technique', 'contract-based deductive verification: CBMC code contracts (goto-instrument --dfcc) on C lowered mechanically from the real instantiations'),
        })
    else:
        na.append({'property_id': p, 'reason': t.get('na_reason', 'no contract unit registered yet for this property')})
m = {
    'version': 1,
    'setup_cmd': 'python3 tools/setup.py',
    'hooks': {'guard': 'AMC_VERIF', 'enable': 'none needed: contracts live in /verif/contracts, extraction reads the headers as they are',
              'baseline_off_cmd': 'cmake -G Ninja -S /repo -B /repo/_build >/dev/null && cmake --build /repo/_build >/dev/null && ctest --test-dir /repo/_build -j8 --timeout 900',
              'source_commits': [], 'add_only': True},
    'engines': [{'name': 'cbmc-dfcc', 'path': 'tools/check.py', 'serves_properties': [c['property_id'] for c in checks],
                 'kind_free_text': 'clang JSON AST -> cxx2c lowering to C -> contracts spliced -> goto-instrument --dfcc -> cbmc + cadical'}],
    'checks': checks,
    'not_applicable': na,
    'notes': 'see DESIGN.md; evidence files are written by ./check on every run',
}
json.dump(m, open(os.path.join(V, 'MANIFEST.json'), 'w'), indent=1)
print('claimed:', [c['property_id'] for c in checks])
