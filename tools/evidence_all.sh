#!/bin/bash
# run every claimed quick check in /verif itself (evidence files are written by the checks) and report
cd /verif
for p in $(python3 -c "import json;print(' '.join(c['property_id'] for c in json.load(open('MANIFEST.json'))['checks']))"); do
  s=$(date +%s); out=$(./check $p 2>&1); rc=$?; e=$(date +%s)
  echo "== $p rc=$rc $((e-s))s $(echo "$out" | tail -1 | cut -c1-120)"
done
