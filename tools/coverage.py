"""List, per configuration, which lowered repository functions are enforced (target of a unit), only reached (inlined in some unit)
or not reached by any unit, and which repository functions were not lowered at all.  usage: python3 tools/coverage.py [cfg] [elem]"""
import sys, os, re, json
sys.path.insert(0, os.path.dirname(os.path.abspath(__file__)))
sys.path.insert(0, os.path.join(os.path.dirname(os.path.abspath(__file__)), '..', 'contracts'))
import pipeline, units as U
cfg = sys.argv[1] if len(sys.argv) > 1 else 'main17'
elem = sys.argv[2] if len(sys.argv) > 2 else 'ElemNR'
xdir = pipeline.extract(cfg, elem, print)
report = json.load(open(os.path.join(xdir, 'report.json')))
text = open(os.path.join(xdir, 'lowered.c')).read()
fns = {}
for m in re.finditer(r'/\*@FN (\S+)@\*/(.*?)/\*@ENDFN@\*/', text, re.S):
    fns[m.group(1)] = m.group(2)
calls = {f: set(c for c in re.findall(r'\b([A-Za-z_]\w*)\s*\(', b) if c in fns and c != f) for f, b in fns.items()}
targets = set()
for u in U.units():
    if u['cfg'] == cfg and u['elem'] == elem:
        targets.add(u['target'])
reach = set(); todo = list(t for t in targets if t in fns)
while todo:
    f = todo.pop()
    if f in reach: continue
    reach.add(f); todo += list(calls[f])
print('lowered %d, targets %d (present %d), reached %d' % (len(fns), len(targets), len(targets & set(fns)), len(reach)))
print('--- lowered but not reached by any unit:')
for f in sorted(set(fns) - reach): print('   ', f)
print('--- not lowered (reason):')
for k, v in sorted(report.get('failed', {}).items()) if isinstance(report.get('failed'), dict) else []:
    print('   ', k, '::', str(v)[:120])
