import sys
sys.path.insert(0, '/verif/tools')
from astload import *
def show(n, ind=0, out=sys.stdout):
    if not isinstance(n, dict) or not n: 
        out.write(' '*ind + '<null>\n'); return
    k = n.get('kind')
    t = n.get('type', {})
    s = ' '*ind + str(k)
    for key in ('name','opcode','castKind','value','valueCategory','isArrow','isPostfix','mangledName'):
        if key in n: s += ' %s=%s' % (key, n[key])
    if t: s += ' T=[%s]' % t.get('qualType') + ('{%s}' % t['desugaredQualType'] if 'desugaredQualType' in t else '')
    for key in ('referencedDecl','referencedMemberDecl','foundReferencedDecl'):
        if key in n:
            r = n[key]
            s += ' %s=' % key + (r if isinstance(r,str) else '%s:%s:%s:%s' % (r.get('id'), r.get('kind'), r.get('name'), r.get('type',{}).get('qualType')))
    for key in ('ctorType','conversionFunc','path','nrvo','init','storageClass','constexpr','explicitlyDefaulted','isImplicit','elidable','hadMultipleCandidates','constructionKind','zeroing','argType','isPartOfExplicitCast', 'exceptionSpec'):
        if key in n: s += ' %s=%s' % (key, n[key])
    out.write(s + '\n')
    for c in n.get('inner', []):
        if isinstance(c, dict) and c.get('kind','').endswith('Comment'): continue
        show(c, ind+2, out)
if __name__ == '__main__':
    a = AST(sys.argv[1])
    pat = sys.argv[2]
    lim = int(sys.argv[3]) if len(sys.argv) > 3 else 3
    c = 0
    for n in a.by_id.values():
        if n.get('kind') in FUNC_KINDS and body_of(n) is not None and pat in n.get('mangledName','') + ' ' + n.get('name',''):
            p = a.parent.get(n['id'])
            print('## parent', p.get('kind'), p.get('name'), 'file', a.file_of.get(n['id']), a.line_of.get(n['id']))
            show(n); c += 1
            if c >= lim: break
