#!/bin/bash
# usage: tools/seedtest.sh <patch.diff> <prop> [<prop>...]   -- apply a seeded change to /repo, run the checks, undo
set -u
patch="$1"; shift
cd /repo || exit 2
if ! git diff --quiet; then echo "repo not clean"; exit 2; fi
if ! patch -p1 --fuzz=3 -s < "$patch"; then echo "PATCH DOES NOT APPLY"; git checkout -- .; find . -name '*.orig' -delete; find . -name '*.rej' -delete; exit 3; fi
find . -name '*.orig' -delete
cd /verif
for p in "$@"; do
  out=$(./check "$p" 2>&1); rc=$?
  echo "== $p rc=$rc"
  echo "$out" | grep -E "VIOLATION|failed obligation|UNDECIDED" | head -8
done
git -C /repo checkout -- .
git -C /repo status --short | grep -v _build
