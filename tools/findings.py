"""known findings: committed file /verif/known_findings.json, never written at run time"""
import os, json, re
VERIF = os.path.dirname(os.path.dirname(os.path.abspath(__file__)))

def load():
    p = os.path.join(VERIF, 'known_findings.json')
    if not os.path.exists(p):
        return []
    return json.load(open(p)).get('findings', [])

def triage(prop, failures):
    """failures: [(unit, obligation)] -> (KNOWN-FINDING lines, failures not covered by a listed finding)"""
    kf = [f for f in load() if f.get('status', 'open') == 'open' and prop in f.get('properties', [f.get('property')])]
    lines, new = [], []
    for u, o in failures:
        text = (o.get('label') or '') + ' ' + o.get('desc', '')
        hit = None
        for f in kf:
            if re.fullmatch(f['unit'], u['id']) and re.search(f['obligation'], text):
                hit = f; break
        if hit is None:
            new.append((u, o))
        else:
            l = '%s (unit %s, obligation "%s")' % (hit['what'], u['id'], (o.get('label') or o.get('desc'))[:80])
            if l not in lines:
                lines.append(l)
    return lines, new


def for_unit(unit_id):
    return [f for f in load() if f.get('status', 'open') == 'open' and re.fullmatch(f['unit'], unit_id)]
