"""Load a clang -ast-dump=json (filtered, concatenated objects) and index it."""
import json, sys, collections

def load_roots(path):
    txt = open(path).read()
    dec = json.JSONDecoder()
    i, n = 0, len(txt)
    roots = []
    while i < n:
        while i < n and txt[i] in ' \r\n\t':
            i += 1
        if i >= n:
            break
        if txt[i] != '{':
            # "Dumping xxx:" line
            j = txt.find('\n', i)
            i = n if j < 0 else j + 1
            continue
        obj, j = dec.raw_decode(txt, i)
        roots.append(obj)
        i = j
    return roots

class AST:
    def __init__(self, path):
        self.roots = load_roots(path)
        self.by_id = {}
        self.parent = {}
        self.file_of = {}   # node id -> file (tracked through clang's delta encoding)
        self.line_of = {}
        self._cur_file = None
        self._cur_line = None
        seen_roots = set()
        for r in self.roots:
            if r.get('id') in seen_roots:
                continue
            seen_roots.add(r.get('id'))
            self._index(r, None)

    def _track(self, loc):
        if not isinstance(loc, dict):
            return
        for key in ('spellingLoc', 'expansionLoc'):
            if key in loc:
                self._track(loc[key])
        if 'file' in loc:
            self._cur_file = loc['file']
        if 'line' in loc:
            self._cur_line = loc['line']

    def _index(self, n, parent):
        nid = n.get('id')
        if 'loc' in n:
            self._track(n['loc'])
        if 'range' in n:
            self._track(n['range'].get('begin'))
        if nid is not None:
            # first definition wins for by_id only if it has more content
            old = self.by_id.get(nid)
            if old is None or len(old.get('inner', [])) < len(n.get('inner', [])):
                self.by_id[nid] = n
                self.parent[nid] = parent
            self.file_of.setdefault(nid, self._cur_file)
            self.line_of.setdefault(nid, self._cur_line)
        for c in n.get('inner', []):
            if isinstance(c, dict):
                self._index(c, n)
        if 'range' in n:
            self._track(n['range'].get('end'))

FUNC_KINDS = {'FunctionDecl', 'CXXMethodDecl', 'CXXConstructorDecl', 'CXXDestructorDecl', 'CXXConversionDecl'}

def body_of(fn):
    for c in fn.get('inner', []):
        if c.get('kind') in ('CompoundStmt', 'CXXTryStmt'):
            return c
    return None

if __name__ == '__main__':
    a = AST(sys.argv[1])
    print(len(a.roots), 'roots', len(a.by_id), 'nodes')
    kinds = collections.Counter(n.get('kind','?') for n in a.by_id.values())
    for k, v in kinds.most_common():
        print(v, k)
