"""Derive a concrete native scenario from a CBMC counterexample trace and run it against the real headers.

The verifier's counterexample fixes the harness inputs and logical variables (g_N, pre_self.*, g_pos, count, g_alias, g_src ...);
they are read back BY NAME from the trace and turned into a recipe for replay/native_replay.cpp, which builds the pre-state
through the public API only, performs the operation on the real amc container with instrumented element / allocator types and
compares with std::vector.  Operations for which no recipe exists return None (the violation is then reported with
'no-failing-input-found' and the verifier trace attached)."""
import os, re, json, subprocess, hashlib

VERIF = os.path.dirname(os.path.dirname(os.path.abspath(__file__)))
REPO = os.environ.get('AMC_REPO', '/repo')
FL = {'small': 1, 'std': 2, 'static': 3}
SZ = {'u8': 'uint8_t', 'u16': 'uint16_t', 'u32': 'uint32_t', 'u64': 'uint64_t'}
OPMAP = {
    'push_back_rE': 'push_back_rE', 'push_back_rrE': 'push_back_rrE', 'pop_back_v': 'pop_back_v', 'clear_v': 'clear_v',
    'insert_pE_rE': 'insert_pE_rE', 'insert_pE_rrE': 'insert_pE_rrE', 'erase_pE': 'erase_pE', 'erase_pE_pE': 'erase_pE_pE',
    'emplace_back_rE': 'emplace_back_rE', 'emplace_pE_rE': 'emplace_pE_rE',
}

def last_values(trace):
    v = {}
    for fn, lhs, val in trace:
        v[lhs] = val
    return v

def num(v, key, default=0):
    x = v.get(key)
    if x is None:
        return default
    x = str(x)
    if x in ('TRUE', 'true'):
        return 1
    if x in ('FALSE', 'false'):
        return 0
    m = re.match(r'^-?\d+', x)
    return int(m.group(0)) if m else default

SETS_OPS = {'bnd.fs.merge.': 'fs_merge', 'bnd.fs.merge_other.': 'fs_merge_other', 'bnd.fs.insert_range.': 'fs_insert_range', 'bnd.fs.from_vector.': 'fs_from_vector',
            'bnd.ss.merge.': 'ss_merge'}

def derive(unit, obl):
    uid = unit['id']
    v = last_values(obl.get('trace', []))
    if not v:
        return None
    for pre, op in SETS_OPS.items():
        if uid.startswith(pre):
            # bounded set units: the glue exports its concrete inputs under fixed names (g_in_*)
            if 'g_in_tok' not in v:
                return None
            na, nb = num(v, 'g_in_na'), num(v, 'g_in_nb')
            return {'kind': 'sets', 'op': op, 'tok': num(v, 'g_in_tok'), 'tok2': num(v, 'g_in_tok2'), 'la': num(v, 'g_in_la'), 'lb': num(v, 'g_in_lb'),
                    'a': [num(v, 'g_in_a%d' % i) for i in range(min(na, 4))], 'b': [num(v, 'g_in_b%d' % i) for i in range(min(nb, 4))]}
    parts = uid.split('.')
    rec = None
    if parts[0] in ('op', 'cfg') :
        if parts[0] == 'cfg':
            parts = ['op'] + parts[2:]
        name, fl, cat, sz = parts[1], parts[2], parts[3], parts[4]
        op = OPMAP.get(name)
        if op is None:
            if re.fullmatch(r'insert_pE_u\d+_rE', name): op = 'insert_count'
            elif re.fullmatch(r'resize_u\d+', name): op = 'resize'
            elif re.fullmatch(r'resize_u\d+_rE', name): op = 'resize_v'
            elif re.fullmatch(r'assign_u\d+_rE', name): op = 'assign_count'
            elif re.fullmatch(r'append_u\d+', name): op = 'append_count'
            elif re.fullmatch(r'append_u\d+_rE', name): op = 'append_count_v'
            elif re.fullmatch(r'reserve_u\d+', name): op = 'reserve'
            elif name.startswith('assign_pE_pE'): op = 'assign_range'
            elif name.startswith('insert_pE_pE_pE'): op = 'insert_range'
            elif name.startswith('append_pE_pE'): op = 'append_range'
            elif name.startswith('pop_back_val'): op = 'pop_back_val'
        if op is None:
            return None
        rec = {'flavour': fl, 'cat': cat, 'sz': sz, 'op': op}
        rec['count'] = num(v, 'count', num(v, 'capacity', 0))
        rec['cnt'] = num(v, 'g_cnt')
    elif parts[0] in ('svb', 'vec4', 'dvb', 'fvb') and parts[1].startswith(('move_assign', 'op_assign', 'swap_impl', 'swap', 'shrink')):
        fl = {'svb': 'small', 'vec4': 'small', 'dvb': 'std', 'fvb': 'static'}[parts[0]]
        op = 'op_assign_move' if parts[1].startswith(('move_assign', 'op_assign')) else ('shrink_to_fit' if parts[1].startswith('shrink') else 'swap')
        rec = {'flavour': fl, 'cat': parts[2], 'sz': parts[3], 'op': op, 'flavour2': fl, 'sz2': parts[3]}
    elif parts[0] == 'vec' and len(parts) >= 5:
        # amc::Vector constructors / copy assignment: vec.<member>.<flavour>.<cat>.<size type>
        mem, fl, cat, sz = parts[1], parts[2], parts[3], parts[4]
        op = 'copy_assign' if mem.startswith('op_assign_rV') else ('copy_ctor' if mem.startswith('ctor_rV') else ('move_ctor' if mem.startswith('ctor_rrV') else ('count_ctor' if re.match(r'ctor_u\d+_rE', mem) else None)))
        if op is None:
            return None
        rec = {'flavour': fl, 'cat': cat, 'sz': sz, 'op': op, 'count': num(v, 'count')}
        if op in ('copy_ctor', 'move_ctor'):
            # the source operand of the constructor is the scenario's vector
            v = dict(v); v['pre_self.size'] = v.get('pre_o.size'); v['pre_self.capa'] = v.get('pre_o.capa'); v['pre_self.heap'] = v.get('pre_o.heap')
        if op == 'copy_assign':
            rec['o_size'] = num(v, 'pre_o.size'); rec['o_capa'] = num(v, 'pre_o.capa'); rec['o_heap'] = num(v, 'pre_o.heap')
            if fl == 'std':
                rec['o_heap'] = 1 if rec['o_capa'] > 0 else 0
    elif parts[0] == 'swap2':
        f1, f2 = parts[1].split('_')
        s1, s2 = parts[3].split('_')
        rec = {'flavour': f1, 'cat': parts[2], 'sz': s1, 'op': 'swap2', 'flavour2': f2, 'sz2': s2}
    if rec is None:
        return None
    rec['N'] = num(v, 'g_N', 4) if rec['flavour'] != 'std' else 0
    rec['size'] = num(v, 'pre_self.size'); rec['capa'] = num(v, 'pre_self.capa'); rec['heap'] = num(v, 'pre_self.heap')
    if rec['flavour'] == 'std':
        rec['heap'] = 1 if rec['capa'] > 0 else 0
    if 'flavour2' in rec:
        rec['N2'] = (num(v, 'g_N2', rec['N']) if rec['op'] == 'swap2' else rec['N']) if rec['flavour2'] != 'std' else 0
        rec['o_size'] = num(v, 'pre_o.size'); rec['o_capa'] = num(v, 'pre_o.capa'); rec['o_heap'] = num(v, 'pre_o.heap')
        if rec['flavour2'] == 'std':
            rec['o_heap'] = 1 if rec['o_capa'] > 0 else 0
    rec['pos'] = num(v, 'g_pos'); rec['pos2'] = num(v, 'g_pos2'); rec['alias'] = num(v, 'g_alias'); rec['src'] = num(v, 'g_src')
    rec['throws'] = 1 if (num(v, 'g_allow_elem_throw') or num(v, 'g_allow_alloc_fail')) else 0
    if rec['N'] > 4000 or rec['size'] > 70000 or (rec['flavour'] == 'small' and rec['N'] < 1):
        return None
    return rec

def run_native_sets(recipe):
    src = os.path.join(VERIF, 'replay', 'native_sets.cpp')
    key = hashlib.sha1(open(src).read().encode()).hexdigest()[:16]
    bdir = os.path.join(VERIF, 'build', 'replay'); os.makedirs(bdir, exist_ok=True)
    exe = os.path.join(bdir, 'ns_' + key)
    if not os.path.exists(exe):
        r = subprocess.run(['g++', '-std=c++17', '-DAMC_NONSTD_FEATURES', '-fsanitize=address,undefined', '-fno-sanitize-recover=undefined', '-g',
                            '-I' + os.path.join(REPO, 'include'), src, '-o', exe], capture_output=True, text=True)
        if r.returncode != 0:
            return False, 'native set replayer does not build against the current headers:\n' + r.stderr[-1500:]
    args = ['op=' + recipe['op'], 'tok=%d' % recipe['tok'], 'tok2=%d' % recipe['tok2'], 'la=%d' % recipe['la'], 'lb=%d' % recipe['lb'],
            'a=' + ','.join(str(x) for x in recipe['a']), 'b=' + ','.join(str(x) for x in recipe['b'])]
    try:
        r = subprocess.run([exe] + args, capture_output=True, text=True, timeout=120, env=dict(os.environ, ASAN_OPTIONS='detect_leaks=1:abort_on_error=0'))
    except subprocess.TimeoutExpired:
        return True, 'native replay did not terminate within 120 s (' + ' '.join(args) + ')'
    out = '$ ' + os.path.basename(exe) + ' ' + ' '.join(args) + '\n' + r.stdout[-3000:] + r.stderr[-2500:]
    if r.returncode == 3:
        return False, out
    return r.returncode != 0, out

def run_native(recipe, log=print):
    if recipe.get('kind') == 'sets':
        return run_native_sets(recipe)
    tr = 1 if recipe['cat'] == 'TR' else 0
    defs = ['-DR_FLAVOUR=%d' % FL[recipe['flavour']], '-DR_N=%d' % max(recipe['N'], 1 if recipe['flavour'] != 'std' else 0), '-DR_SIZE_T=' + SZ[recipe['sz']], '-DR_TR=%d' % tr]
    if 'flavour2' in recipe:
        defs += ['-DR_FLAVOUR2=%d' % FL[recipe['flavour2']], '-DR_N2=%d' % max(recipe['N2'], 1 if recipe['flavour2'] != 'std' else 0), '-DR_SIZE2_T=' + SZ[recipe['sz2']]]
    key = hashlib.sha1((' '.join(defs) + open(os.path.join(VERIF, 'replay', 'native_replay.cpp')).read()).encode()).hexdigest()[:16]
    bdir = os.path.join(VERIF, 'build', 'replay'); os.makedirs(bdir, exist_ok=True)
    exe = os.path.join(bdir, 'nr_' + key)
    if not os.path.exists(exe):
        r = subprocess.run(['g++', '-std=c++17', '-DAMC_NONSTD_FEATURES', '-fsanitize=address,undefined', '-fno-sanitize-recover=undefined', '-g'] + defs +
                           ['-I' + os.path.join(REPO, 'include'), os.path.join(VERIF, 'replay', 'native_replay.cpp'), '-o', exe], capture_output=True, text=True)
        if r.returncode != 0:
            return False, 'native replayer does not build for this recipe:\n' + r.stderr[-1500:]
    args = ['op=' + recipe['op']] + ['%s=%s' % (k, recipe[k]) for k in ('size', 'capa', 'heap', 'o_size', 'o_capa', 'o_heap', 'pos', 'pos2', 'count', 'cnt', 'alias', 'src', 'throws') if k in recipe]
    try:
        r = subprocess.run([exe] + args, capture_output=True, text=True, timeout=120, env=dict(os.environ, ASAN_OPTIONS='detect_leaks=1:abort_on_error=0'))
    except subprocess.TimeoutExpired:
        return True, 'native replay did not terminate within 120 s (' + ' '.join(args) + ')'
    out = '$ ' + os.path.basename(exe) + ' ' + ' '.join(args) + '\n' + r.stdout[-3000:] + r.stderr[-2500:]
    if r.returncode == 3:
        return False, out
    # exit 1 = misbehaviour found by the replayer's own oracle; other non-zero = sanitizer abort / crash on the real code
    return r.returncode != 0, out
