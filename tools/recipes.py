"""derive a concrete native scenario from a CBMC trace (filled in per operation family)"""
def derive(unit, obl):
    return None
def run_native(recipe, log):
    return False, 'no native runner for this recipe'
