#!/usr/bin/env python3
"""cxx2c: closed-world mechanical lowering of clang's JSON AST of real amc instantiations to C for CBMC.

Everything not on a rule aborts the function (Unsupported) -- a function on the contract list that cannot be lowered is an
extraction stop (exit 2) for the checks that need it.  Part 1: discovery and naming.
"""
import sys, os, re, json, hashlib, collections
sys.path.insert(0, os.path.dirname(os.path.abspath(__file__)))
from astload import AST, FUNC_KINDS, body_of
from ctypes_map import TypeMap, Unsupported, split_targs, strip_cv, BUILTIN

DEP_KINDS = {'CXXDependentScopeMemberExpr', 'UnresolvedLookupExpr', 'UnresolvedMemberExpr', 'CXXUnresolvedConstructExpr',
             'DependentScopeDeclRefExpr', 'PackExpansionExpr', 'ParenListExpr'}
RECORD_KINDS = ('CXXRecordDecl', 'ClassTemplateSpecializationDecl', 'ClassTemplatePartialSpecializationDecl')

EXC = {'out_of_range': 'L0_EXC_OUT_OF_RANGE', 'overflow_error': 'L0_EXC_OVERFLOW', 'bad_alloc': 'L0_EXC_BAD_ALLOC'}

def has_kind(n, kinds):
    if not isinstance(n, dict):
        return False
    if n.get('kind') in kinds:
        return True
    return any(has_kind(c, kinds) for c in n.get('inner', []))

def children(n):
    return [c for c in n.get('inner', []) if isinstance(c, dict) and not c.get('kind', '').endswith('Comment')]

class Func:
    """one instantiated function selected for lowering"""
    def __init__(self, node):
        self.node = node
        self.cname = None
        self.qual = None
        self.record = None      # canonical class string (methods)
        self.text = None
        self.proto = None
        self.callees = set()    # cnames of lowered amc callees
        self.l0 = set()         # L0 primitive names used
        self.error = None
        self.noexcept = None    # True / False / 'expr'
        self.src = None

class Lowering:
    def __init__(self, ast, elem, other_elems, facts=None):
        self.a = ast
        self.tm = TypeMap(elem, other_elems)
        self.elem = elem
        self.facts = facts or {}
        self.funcs = {}         # decl id -> Func
        self.by_cname = {}
        self.records = {}       # canonical class string -> record decl node
        self._index_records()
        self._index_funcs()
        self.tm.alias_resolver = self.resolve_member_alias

    def resolve_member_alias(self, rec_canon, member, depth=0):
        if '::' in member or depth > 6:
            return None
        rec = self.records.get(rec_canon)
        if rec is None:
            return None
        for c in rec.get('inner', []):
            if c.get('kind') in ('TypeAliasDecl', 'TypedefDecl') and c.get('name') == member:
                t = c['type']
                try:
                    return self.tm.canon(t.get('desugaredQualType') or t['qualType'])
                except Exception:
                    return None
        for b in rec.get('bases', []):
            try:
                bc = self.tm.canon_of(b['type'])
            except Exception:
                continue
            r = self.resolve_member_alias(bc, member, depth + 1)
            if r is not None:
                return r
        return None

    # ------------------------------------------------------------------ records
    def record_canon(self, rec):
        """canonical type string of a record decl (specialisation or plain nested/namespace class)"""
        names = []
        n = rec
        while n is not None:
            k = n.get('kind')
            if k == 'ClassTemplateSpecializationDecl':
                targs = []
                for c in n.get('inner', []):
                    if c.get('kind') == 'TemplateArgument':
                        targs.append(self._targ_str(c))
                names.append(n.get('name', '?') + '<' + ', '.join(targs) + '>')
            elif k in ('CXXRecordDecl', 'NamespaceDecl'):
                if n.get('name'):
                    names.append(n['name'])
            elif k in ('ClassTemplateDecl', 'ClassTemplatePartialSpecializationDecl', 'FunctionTemplateDecl'):
                if k != 'ClassTemplateDecl':
                    return None
                # a ClassTemplateDecl parent of a specialisation is fine; of a plain CXXRecordDecl it is the pattern
                if names and '<' not in names[-1] and rec.get('kind') != 'ClassTemplateSpecializationDecl' and n is self.a.parent.get(rec['id']):
                    return None
            n = self.a.parent.get(n.get('id'))
        s = '::'.join(reversed(names))
        try:
            return self.tm.canon(s)
        except Exception:
            return None

    def _targ_str(self, c):
        if 'type' in c:
            return c['type'].get('qualType')
        if 'value' in c:
            return str(c['value'])
        for cc in c.get('inner', []):
            if 'value' in cc:
                return str(cc['value'])
            if cc.get('kind') == 'ConstantExpr' or 'inner' in cc:
                v = self._find_value(cc)
                if v is not None:
                    return str(v)
        if c.get('isPack'):
            return '...'.join(self._targ_str(x) or '?' for x in c.get('inner', []))
        return '?'

    def _find_value(self, n):
        if 'value' in n:
            return n['value']
        for c in n.get('inner', []):
            v = self._find_value(c)
            if v is not None:
                return v
        return None

    def _in_pattern(self, n):
        """True if the decl is (inside) a template pattern rather than an instantiation"""
        cur = n
        p = self.a.parent.get(n['id'])
        while p is not None:
            k = p.get('kind')
            if k == 'ClassTemplatePartialSpecializationDecl':
                return True
            if k == 'ClassTemplateDecl':
                return cur.get('kind') != 'ClassTemplateSpecializationDecl'
            if k == 'FunctionTemplateDecl':
                fs = [c for c in p['inner'] if c.get('kind') in FUNC_KINDS]
                if fs and fs[0]['id'] == cur['id']:
                    return True
            cur = p
            p = self.a.parent.get(p['id'])
        return False

    def _index_records(self):
        for n in self.a.by_id.values():
            if n.get('kind') in ('CXXRecordDecl', 'ClassTemplateSpecializationDecl') and n.get('completeDefinition'):
                if self._in_pattern(n):
                    continue
                c = self.record_canon(n)
                if c and c not in self.records:
                    self.records[c] = n

    # ------------------------------------------------------------------ functions
    def _index_funcs(self):
        for n in self.a.by_id.values():
            if n.get('kind') in FUNC_KINDS and body_of(n) is not None and not self._in_pattern(n):
                if has_kind(n, DEP_KINDS):
                    continue
                self.funcs[n['id']] = Func(n)

    def record_of(self, fn_node):
        p = self.a.parent.get(fn_node['id'])
        while p is not None and p.get('kind') in ('FunctionTemplateDecl',):
            p = self.a.parent.get(p['id'])
        if p is not None and p.get('kind') in RECORD_KINDS:
            return p
        # out-of-line definition: parentDeclContextId
        pid = fn_node.get('parentDeclContextId')
        if pid and pid in self.a.by_id and self.a.by_id[pid].get('kind') in RECORD_KINDS:
            return self.a.by_id[pid]
        return None

    def fn_sig(self, fn_node):
        """(return type obj string, [param type strings]) from ParmVarDecls / function type string"""
        params = [c for c in fn_node.get('inner', []) if c.get('kind') == 'ParmVarDecl']
        return params

    def name_func(self, f):
        n = f.node
        rec = self.record_of(n)
        parts = []
        if rec is not None:
            rc = self.record_canon(rec)
            if rc is None:
                raise Unsupported('record of method not canonical')
            f.record = rc
            parts.append(self.tm.tag(rc))
        else:
            ns = []
            p = self.a.parent.get(n['id'])
            while p is not None:
                if p.get('kind') == 'NamespaceDecl' and p.get('name') not in ('amc', 'vec'):
                    ns.append(p['name'])
                p = self.a.parent.get(p['id'])
            parts.extend(reversed(ns))
        nm = n.get('name', '?')
        k = n.get('kind')
        if k == 'CXXConstructorDecl':
            nm = 'ctor'
        elif k == 'CXXDestructorDecl':
            nm = 'dtor'
        elif k == 'CXXConversionDecl':
            nm = 'conv_' + re.sub(r'\W', '_', nm.replace('operator ', ''))
        elif nm.startswith('operator'):
            ops = {'()': 'call', '=': 'assign', '==': 'eq', '!=': 'ne', '<': 'lt', '<=': 'le', '>': 'gt', '>=': 'ge',
                   '[]': 'index', '*': 'deref', '++': 'inc', '--': 'dec', '->': 'arrow', '<=>': 'spaceship'}
            nm = 'op_' + ops.get(nm[len('operator'):].strip(), re.sub(r'\W', '_', nm[8:]))
        sig = []
        for p in self.fn_sig(n):
            sig.append(self.tm.tag(self.tm.canon_of(p['type'])))
        # template arguments of function templates that do not show in the parameter list
        cname = '__'.join(parts + [nm]) + '__' + ('_'.join(sig) if sig else 'v')
        if self._is_const_method(n):
            cname += '_c'
        f.qual = '::'.join(parts + [n.get('name', '?')])
        return cname

    def _is_const_method(self, n):
        q = n.get('type', {}).get('qualType', '')
        return bool(re.search(r'\)\s*const\b', q))

    def resolve_names(self):
        tmp = collections.defaultdict(list)
        for f in self.funcs.values():
            try:
                f.cname = self.name_func(f)
            except Unsupported as e:
                f.error = 'naming: %s' % e
                continue
            tmp[f.cname].append(f)
        for cname, fs in tmp.items():
            if len(fs) == 1:
                self.by_cname[cname] = fs[0]
            else:
                # disambiguate by mangled-name hash (e.g. function templates differing only in non-deduced arguments)
                for f in fs:
                    h = hashlib.sha1(f.node.get('mangledName', f.node['id']).encode()).hexdigest()[:6]
                    f.cname = cname + '__' + h
                    self.by_cname[f.cname] = f


# =====================================================================================================================
# Part 2: per-function emitter (expressions)
# =====================================================================================================================
def strip_casts(e, kinds=('ImplicitCastExpr', 'ParenExpr')):
    while isinstance(e, dict) and e.get('kind') in kinds and children(e):
        e = children(e)[0]
    return e

def fn_param_types(qual):
    """parameter type strings of a function type string 'R (A, B) const noexcept(...)'"""
    depth = 0
    start = None
    for i, ch in enumerate(qual):
        if ch == '(':
            if depth == 0 and start is None:
                # the first top-level '(' that is not '(*)' / '(&)'
                if qual[i:i+3] in ('(*)', '(&)'):
                    pass
                else:
                    start = i
            depth += 1
        elif ch == ')':
            depth -= 1
            if depth == 0 and start is not None:
                inner = qual[start+1:i]
                return [p for p in split_targs(inner)] if inner.strip() and inner.strip() != 'void' else []
        elif ch == '<':
            pass
    return []

def fn_ret_type(qual):
    depth = 0
    for i, ch in enumerate(qual):
        if ch == '<': depth += 1
        elif ch == '>': depth -= 1
        elif ch == '(' and depth == 0:
            return qual[:i].strip()
    return qual

def simp_addr(s):
    s = s.strip()
    m = re.match(r'^\(\*(.*)\)$', s)
    if m and balanced(m.group(1)):
        return m.group(1).strip()
    return '&' + s

def balanced(s):
    d = 0
    for ch in s:
        if ch == '(': d += 1
        elif ch == ')':
            d -= 1
            if d < 0: return False
    return d == 0

def deref(s):
    s = s.strip()
    if s.startswith('&') and balanced(s[1:]) and not re.search(r'[^\w\->.\[\]()&*]', s[1:]):
        return s[1:]
    return '(*%s)' % s

L0_BOUNDARY_RECORDS = {'SimpleAllocator'}
INLINE_EXTERNAL = {'move', 'forward', 'addressof', 'min', 'max', 'exchange', 'swap', 'distance', 'next', 'prev', 'move_if_noexcept'}

class FnEmitter:
    def __init__(self, L, f):
        self.L, self.f, self.tm, self.a = L, f, L.tm, L.a
        self.elem = L.elem
        self.locals = {}       # decl id -> (cname, is_ref)
        self.pre = []          # pending hoisted statements (lines)
        self.tmpn = 0
        self.handlers = ['L_exc_exit']
        self.labeln = 0
        self.saved_exc = []    # names of saved exception words in enclosing catch handlers
        self.ret_ctype = None
        self.ret_is_ref = False
        self.ret_by_out = False
        self.uses_exc_exit = False
        self.decl_lines = []   # function-scope declarations of temporaries

    # -------------------------------------------------------------- helpers
    def tmp(self, ctype, init=None):
        self.tmpn += 1
        name = 'tmp%d' % self.tmpn
        self.decl_lines.append('%s %s;' % (ctype, name) if not ctype.endswith(']') else ctype)
        if init is not None:
            self.pre.append('%s = %s;' % (name, init))
        return name

    def fresh_local_text(self, name, ct):
        """a local object has just come into existence: the tracked cell / token may prophetically lie in it, but only on one of
        the element slots of its type (generated predicate L0_SLOT_OK_<tag>, see emit_structs)"""
        if ct.startswith('struct '):
            self.f.l0.add('L0_FRESH_LOCAL_S')
            return 'L0_FRESH_LOCAL_S(%s, &%s);' % (ct[len('struct '):], name)
        self.f.l0.add('L0_fresh_local')
        return 'L0_fresh_local(&%s, sizeof(%s));' % (name, name)

    def flush(self):
        p, self.pre = self.pre, []
        return p

    def cat(self, e):
        return e.get('valueCategory', 'prvalue')

    def ctype(self, e):
        return self.tm.ctype_of(e['type'])

    def canon_t(self, e):
        return self.tm.canon_of(e['type'])

    def exc_check(self):
        self.uses_exc_exit = True
        return 'if (l0_exc) goto %s;' % self.handlers[-1]

    def val(self, e):
        return self.rv(e) if self.cat(e) == 'prvalue' else self.lv(e)

    def addr(self, e):
        if self.cat(e) == 'prvalue':
            # prvalue bound where an address is needed: materialise
            ct = self.ctype(e)
            t = self.tmp(ct, self.rv(e))
            return '&' + t
        return simp_addr(self.lv(e))

    # -------------------------------------------------------------- lvalues
    def lv(self, e):
        k = e['kind']
        ch = children(e)
        if k == 'DeclRefExpr':
            rd = e['referencedDecl']
            if rd['id'] in self.locals:
                name, is_ref = self.locals[rd['id']]
                return '(*%s)' % name if is_ref else name
            if rd.get('kind') == 'VarDecl':
                return self.static_member(rd, e)
            raise Unsupported('DeclRefExpr lvalue to %s %s' % (rd.get('kind'), rd.get('name')))
        if k == 'MemberExpr':
            base = ch[0]
            nm = e['name']
            md = self.a.by_id.get(e.get('referencedMemberDecl'))
            if md is not None and md.get('kind') == 'VarDecl':
                return self.static_member(md, e)
            is_ref_field = False
            if md is not None and md.get('kind') == 'FieldDecl':
                try:
                    is_ref_field = self.tm.canon_of(md['type']).endswith('&')
                except Exception:
                    is_ref_field = False
            if e.get('isArrow'):
                t = '%s->%s' % (self.paren(self.rv(base)), nm)
            else:
                t = '%s.%s' % (self.paren(self.lv(base)), nm)
            return '(*%s)' % t if is_ref_field else t
        if k == 'ParenExpr':
            return '(%s)' % self.lv(ch[0])
        if k == 'UnaryOperator':
            op = e['opcode']
            if op == '*':
                return deref(self.rv(ch[0]))
            if op in ('++', '--') and not e.get('isPostfix'):
                x = self.lv(ch[0])
                return '(*(%s%s, &%s))' % (op, x, x)
            raise Unsupported('lvalue unary ' + op)
        if k == 'ArraySubscriptExpr':
            return '%s[%s]' % (self.paren(self.rv(ch[0])), self.rv(ch[1]))
        if k == 'ImplicitCastExpr' or k in ('CXXStaticCastExpr', 'CXXConstCastExpr', 'CStyleCastExpr', 'CXXReinterpretCastExpr'):
            ck = e.get('castKind')
            if ck in ('NoOp', 'LValueToRValue'):
                return self.lv(ch[0])
            if ck in ('DerivedToBase', 'UncheckedDerivedToBase', 'BaseToDerived'):
                return '(*(%s *)%s)' % (self.ctype(e), self.paren(simp_addr(self.lv(ch[0]))))
            if ck == 'BitCast' or ck == 'LValueBitCast':
                return '(*(%s *)%s)' % (self.ctype(e), self.paren(simp_addr(self.lv(ch[0]))))
            raise Unsupported('lvalue cast ' + str(ck))
        if k == 'ConditionalOperator':
            c, x, y = ch
            if self.has_throwing_call(x) or self.has_throwing_call(y):
                raise Unsupported('throwing call in lvalue conditional')
            return '(*(%s ? %s : %s))' % (self.rv(c), simp_addr(self.lv(x)), simp_addr(self.lv(y)))
        if k in ('CallExpr', 'CXXMemberCallExpr', 'CXXOperatorCallExpr'):
            r = self.call(e)
            return r  # call() returns lvalue text for reference-returning callees
        if k == 'BinaryOperator' and e['opcode'] == ',':
            return '(*(%s, %s))' % (self.val(ch[0]), simp_addr(self.lv(ch[1])))
        if k == 'BinaryOperator' and e['opcode'] == '=':
            r = self.rv_conv(ch[1])
            x = self.lv(ch[0])
            self.pre.append('%s = %s;' % (x, r))
            return x
        if k == 'CompoundAssignOperator':
            x = self.lv(ch[0])
            self.pre.append('%s %s %s;' % (x, e['opcode'], self.rv_conv(ch[1])))
            return x
        if k == 'MaterializeTemporaryExpr':
            sub = ch[0]
            ct = self.ctype(e)
            if self.tm.is_elem(e['type']) or ct.startswith('struct '):
                t = self.tmp(ct)
                if ct == 'E':
                    self.pre.append(self.fresh_local_text(t, ct))
                self.construct_into(sub, '&' + t)
                if ct == 'E' or self.L.find_dtor_ct(ct) is not None:
                    self.temps_to_destroy.append((t, ct))
                return t
            t = self.tmp(ct, self.rv(sub))
            return t
        if k == 'ExprWithCleanups':
            return self.lv(ch[0])
        if k == 'CXXDefaultArgExpr' or k == 'CXXDefaultInitExpr':
            if ch:
                return self.lv(ch[0])
        if k == 'SubstNonTypeTemplateParmExpr':
            return self.lv(ch[-1])
        if k == 'CXXBindTemporaryExpr':
            return self.lv(ch[0])
        raise Unsupported('lvalue kind ' + k)

    temps_to_destroy = None

    def paren(self, s):
        return s if re.match(r'^[\w>.\-]+$', s.replace('->', 'XX')) else '(%s)' % s

    def static_member(self, rd, e):
        nm = rd.get('name')
        ct = self.ctype(e)
        if nm == 'kMaxSize':
            return {'uint8_t': '((uint8_t)255)', 'uint16_t': '((uint16_t)65535)', 'uint32_t': '((uint32_t)4294967295U)',
                    'uint64_t': '((uint64_t)18446744073709551615UL)', 'int8_t': '((int8_t)127)'}[ct]
        if nm == 'nullopt':
            return '(struct std_nullopt_t){0}'
        if nm == 'value' and self.f.node.get('name') == 'canSwapDynStorage':
            # std::is_same<OAlloc, Alloc>::value: the two allocator types are the class's second template argument and the
            # non-builtin template argument of the member template; compared on canonical type strings
            rec = self.L.record_of(self.f.node)
            cargs = [self.L._targ_str(c) for c in rec.get('inner', []) if c.get('kind') == 'TemplateArgument']
            fargs = [self.L._targ_str(c) for c in self.f.node.get('inner', []) if c.get('kind') == 'TemplateArgument']
            mine = self.tm.canon(cargs[1]) if len(cargs) >= 2 else None
            others = [self.tm.canon(x) for x in fargs if self.tm.canon(x) not in BUILTIN]
            if mine is None or len(others) != 1:
                raise Unsupported('is_same<OAlloc, Alloc>::value: cannot identify the allocator arguments')
            return '((_Bool)%d)' % (1 if others[0] == mine else 0)
        key = 'static:' + nm + ':' + self.tm.canon_of(e['type'])
        v = self.L.facts.get('static', {}).get(nm)
        if v is not None:
            return '((%s)%s)' % (ct, v)
        # a constexpr static data member of an instantiated class: its initializer (already substituted by clang) is lowered in place
        decl = self.a.by_id.get(rd.get('id')) or rd
        init = [c for c in children(decl) if not c.get('kind', '').endswith('Attr')]
        if decl.get('constexpr') and len(init) == 1 and nm not in getattr(self, '_static_busy', ()):
            self._static_busy = getattr(self, '_static_busy', ()) + (nm,)
            try:
                return '((%s)(%s))' % (ct, self.rv(init[0]))
            finally:
                self._static_busy = self._static_busy[:-1]
        raise Unsupported('static member ' + str(nm))

    def rv_conv(self, e):
        return self.val(e)

    def discard(self, e):
        """discarded-value expression (for-increment): no lvalue plumbing needed"""
        k = e.get('kind')
        ch = children(e)
        if k == 'BinaryOperator' and e.get('opcode') == ',':
            return '%s, %s' % (self.discard(ch[0]), self.discard(ch[1]))
        if k == 'UnaryOperator' and e.get('opcode') in ('++', '--'):
            x = self.lv(ch[0])
            return '%s%s' % (x, e['opcode']) if e.get('isPostfix') else '%s%s' % (e['opcode'], x)
        if k in ('CStyleCastExpr', 'CXXFunctionalCastExpr', 'CXXStaticCastExpr') and e.get('castKind') == 'ToVoid':
            return self.discard(ch[-1])
        if k in ('ParenExpr', 'ExprWithCleanups'):
            return self.discard(ch[0])
        return self.val(e)

    # -------------------------------------------------------------- rvalues
    INT_SUFFIX = {'uint32_t': 'U', 'uint64_t': 'UL', 'int64_t': 'L'}

    def zero_of(self, ct):
        if ct.startswith('struct '):
            return '(%s){0}' % ct
        return '((%s)0)' % ct

    def sub_scoped(self, e, fn):
        """emit e with its own pre-statement list; returns (pre, text)"""
        saved = self.pre
        self.pre = []
        try:
            t = fn(e)
            p = self.pre
        finally:
            self.pre = saved
        return p, t

    def rv(self, e):
        k = e['kind']
        ch = children(e)
        if k == 'IntegerLiteral':
            ct = self.ctype(e)
            return '((%s)%s%s)' % (ct, e['value'], self.INT_SUFFIX.get(ct, '')) if ct != 'int' else str(e['value'])
        if k == 'CharacterLiteral':
            return '((%s)%s)' % (self.ctype(e), e['value'])
        if k == 'CXXBoolLiteralExpr':
            return '1' if e['value'] else '0'
        if k == 'CXXNullPtrLiteralExpr':
            return '((void *)0)'
        if k == 'CXXThisExpr':
            return 'self'
        if k == 'ParenExpr':
            return '(%s)' % self.rv(ch[0])
        if k in ('ConstantExpr',):
            if 'value' in e:
                v = {'true': '1', 'false': '0'}.get(str(e['value']), e['value'])
                return '((%s)%s)' % (self.ctype(e), v)
            return self.rv(ch[0])
        if k == 'SubstNonTypeTemplateParmExpr':
            return self.val(ch[-1])
        if k in ('ExprWithCleanups', 'CXXBindTemporaryExpr'):
            return self.rv(ch[0])
        if k in ('CXXDefaultArgExpr', 'CXXDefaultInitExpr'):
            if ch:
                return self.val(ch[0])
            return self.zero_of(self.ctype(e))
        if k == 'UnaryExprOrTypeTraitExpr':
            if e.get('name') != 'sizeof':
                raise Unsupported('type trait ' + str(e.get('name')))
            at = e.get('argType')
            if at is None:
                at = ch[0]['type']
            ct = self.tm.ctype_of(at) if not re.search(r'\[\d+\]$', (at.get('desugaredQualType') or at.get('qualType'))) else None
            if ct is None:
                raise Unsupported('sizeof array type')
            return '((uint64_t)sizeof(%s))' % ct
        if k in ('ImplicitCastExpr', 'CXXStaticCastExpr', 'CXXConstCastExpr', 'CStyleCastExpr', 'CXXReinterpretCastExpr',
                 'CXXFunctionalCastExpr'):
            return self.cast(e)
        if k == 'BinaryOperator':
            return self.binop(e)
        if k == 'CompoundAssignOperator':
            return '(%s %s %s)' % (self.lv(ch[0]), e['opcode'], self.val(ch[1]))
        if k == 'UnaryOperator':
            op = e['opcode']
            if op == '&':
                return self.addr(ch[0])
            if op in ('++', '--'):
                x = self.lv(ch[0])
                return '(%s%s)' % (x, op) if e.get('isPostfix') else '(%s%s)' % (op, x)
            if op in ('!', '-', '~', '+'):
                return '(%s%s)' % (op, self.rv(ch[0]))
            if op == '*':
                return self.lv(e)
            raise Unsupported('unary ' + op)
        if k == 'ConditionalOperator':
            c, x, y = ch
            cc = self.rv(c)
            px, tx = self.sub_scoped(x, self.val)
            py, ty = self.sub_scoped(y, self.val)
            if px or py:
                ct = self.ctype(e)
                if ct == 'void':
                    self.pre.append('if (%s) { %s %s; } else { %s %s; }' % (cc, ' '.join(px), tx, ' '.join(py), ty))
                    return '((void)0)'
                t = self.tmp(ct)
                self.pre.append('if (%s) { %s %s = %s; } else { %s %s = %s; }' % (cc, ' '.join(px), t, tx, ' '.join(py), t, ty))
                return t
            return '(%s ? %s : %s)' % (cc, tx, ty)
        if k in ('CallExpr', 'CXXMemberCallExpr', 'CXXOperatorCallExpr'):
            return self.call(e)
        if k in ('CXXConstructExpr', 'CXXTemporaryObjectExpr'):
            return self.construct_value(e)
        if k == 'MaterializeTemporaryExpr':
            return self.lv(e)
        if k in ('DeclRefExpr', 'MemberExpr', 'ArraySubscriptExpr'):
            return self.lv(e)
        if k == 'CXXThrowExpr':
            return self.throw_expr(e)
        if k == 'CXXScalarValueInitExpr':
            return self.zero_of(self.ctype(e))
        if k == 'InitListExpr':
            ct = self.ctype(e)
            rec = self.L.records.get(self.canon_t(e))
            fields = [c for c in (rec or {}).get('inner', []) if c.get('kind') == 'FieldDecl']
            if rec is not None and not rec.get('bases') and len(fields) == len(ch):
                # a reference member is initialised with the address of its initialiser
                return '(%s){%s}' % (ct, ', '.join(self.addr(c) if self.tm.canon_of(fd['type']).endswith('&') else self.val(c) for fd, c in zip(fields, ch)))
            return '(%s){%s}' % (ct, ', '.join(self.val(c) for c in ch))
        if k == 'CXXNewExpr':
            return self.new_expr(e)
        raise Unsupported('rvalue kind ' + k)

    def cast(self, e):
        ck = e.get('castKind')
        sub = children(e)[-1] if children(e) else None
        if ck == 'LValueToRValue':
            inner = strip_casts(sub, ('ParenExpr',))
            if inner.get('kind') == 'ConditionalOperator' and not self.tm.is_elem(inner['type']):
                # value of an lvalue conditional: no need to form addresses (one arm may be a constant such as kMaxSize)
                c, x, y = children(inner)
                cc = self.rv(c)
                px, tx = self.sub_scoped(x, self.val)
                py, ty = self.sub_scoped(y, self.val)
                if not px and not py:
                    return '(%s ? %s : %s)' % (cc, tx, ty)
                # an arm contains a call that had to be hoisted (e.g. `exact ? n : std::max(a, b)`): evaluate only the selected arm
                t = self.tmp(self.ctype(e))
                self.pre.append('if (%s) { %s %s = %s; } else { %s %s = %s; }' % (cc, ' '.join(px), t, tx, ' '.join(py), t, ty))
                return t
            return self.lv(sub)
        if ck in ('NoOp', 'FunctionToPointerDecay', 'BuiltinFnToFnPtr', 'UserDefinedConversion', 'ConstructorConversion'):
            return self.val(sub)
        if ck == 'ArrayToPointerDecay':
            return self.lv(sub)
        if ck in ('IntegralCast', 'BitCast', 'DerivedToBase', 'UncheckedDerivedToBase', 'BaseToDerived', 'PointerToIntegral',
                  'IntegralToPointer'):
            if self.cat(e) != 'prvalue':
                return self.lv(e)
            return '((%s)%s)' % (self.ctype(e), self.paren(self.rv(sub)))
        if ck == 'NullToPointer':
            return '((%s)0)' % self.ctype(e)
        if ck in ('PointerToBoolean', 'IntegralToBoolean'):
            return '(%s != 0)' % self.paren(self.rv(sub))
        if ck == 'ToVoid':
            if sub['kind'] in ('CallExpr', 'CXXMemberCallExpr', 'CXXOperatorCallExpr'):
                r = self.call(sub, discard=True)
                return '((void)%s)' % r if r else '((void)0)'
            return '((void)%s)' % self.val(sub)
        raise Unsupported('cast kind ' + str(ck))

    def binop(self, e):
        op = e['opcode']
        a, b = children(e)
        if op == '=':
            if self.tm.is_elem(e['type']):
                raise Unsupported('builtin assignment of element type')
            r = self.val(b)
            x = self.lv(a)
            return '(%s = %s)' % (x, r)
        if op == ',':
            return '(%s, %s)' % (self.val(a), self.val(b))
        if op in ('&&', '||'):
            x = self.rv(a)
            pb, y = self.sub_scoped(b, self.rv)
            if pb:
                t = self.tmp('_Bool')
                if op == '&&':
                    self.pre.append('%s = %s; if (%s) { %s %s = %s; }' % (t, x, t, ' '.join(pb), t, y))
                else:
                    self.pre.append('%s = %s; if (!%s) { %s %s = %s; }' % (t, x, t, ' '.join(pb), t, y))
                return t
            return '(%s %s %s)' % (x, op, y)
        ta, tb = self.ctype(a), self.ctype(b)
        if op in ('<', '>', '<=', '>=') and ta.endswith('*') and tb.endswith('*'):
            # relational comparison of possibly unrelated pointers (the 'is v inside [begin, end)' idiom): total order on (object, offset)
            self.f.l0.add('L0_PTR_CMP')
            return 'L0_PTR_CMP(%s, %s, %s)' % (self.rv(a), op, self.rv(b))
        if op == '-' and ta.endswith('*') and tb.endswith('*'):
            # nullptr - nullptr == 0 is well defined in C++ (empty amc::vector: begin() is null)
            self.f.l0.add('L0_PDIFF')
            return 'L0_PDIFF(%s, %s)' % (self.rv(a), self.rv(b))
        if op in ('+', '-') and ta.endswith('*') and not tb.endswith('*'):
            # p + 0 is well defined for a null p in C++; keep CBMC's check for every non-zero offset
            self.f.l0.add('L0_PADD')
            return 'L0_PADD(%s, %s, %s)' % (self.rv(a), op, self.rv(b))
        if op == '+' and tb.endswith('*') and not ta.endswith('*'):
            self.f.l0.add('L0_PADD')
            return 'L0_PADD(%s, +, %s)' % (self.rv(b), self.rv(a))
        return '(%s %s %s)' % (self.rv(a), op, self.rv(b))

    def throw_expr(self, e):
        ch = children(e)
        if not ch:
            # rethrow
            if not self.saved_exc:
                raise Unsupported('rethrow outside handler')
            self.pre.append('l0_exc = %s;' % self.saved_exc[-1])
        else:
            t = (ch[0]['type'].get('desugaredQualType') or ch[0]['type']['qualType'])
            kind = None
            for key, v in EXC.items():
                if key in t:
                    kind = v
            if kind is None:
                raise Unsupported('throw of ' + t)
            self.pre.append('l0_exc = %s;' % kind)
        self.uses_exc_exit = True
        self.pre.append('goto %s;' % self.handlers[-1])
        return '((void)0)'

    # -------------------------------------------------------------- calls
    def has_throwing_call(self, e):
        if not isinstance(e, dict):
            return False
        if e.get('kind') in ('CallExpr', 'CXXMemberCallExpr', 'CXXOperatorCallExpr', 'CXXConstructExpr', 'CXXThrowExpr', 'CXXNewExpr'):
            return True
        return any(self.has_throwing_call(c) for c in children(e))

    def arg_for_param(self, ptype_canon, arg):
        if ptype_canon.endswith('&'):
            return self.addr(arg)
        return self.val(arg)

    def arg_sig(self, arg):
        """abbreviated type of an argument expression, looking through implicit conversions to void*"""
        a = arg
        while (a.get('kind') in ('ImplicitCastExpr', 'CXXStaticCastExpr', 'CStyleCastExpr', 'CXXReinterpretCastExpr', 'CXXFunctionalCastExpr') and
               a.get('castKind') in ('BitCast', 'NoOp') and re.search(r'\bvoid\s*\*', a['type'].get('qualType', ''))) or a.get('kind') == 'ParenExpr':
            a = children(a)[-1]
        c = self.tm.canon_of(a['type'])
        if a.get('valueCategory') in ('lvalue', 'xvalue'):
            c = c + ' &'
        return self.tm.tag(c)

    def emit_call(self, text, ret_ct, may_throw, ret_ref=False, discard=False):
        """hoist a call that may throw; returns expression text for its value"""
        if not may_throw:
            return deref(text) if ret_ref else text
        if ret_ct == 'void' or discard:
            self.pre.append('%s;' % text)
            self.pre.append(self.exc_check())
            return ''
        t = self.tmp(ret_ct if not ret_ref else ret_ct)
        self.pre.append('%s = %s;' % (t, text))
        self.pre.append(self.exc_check())
        return deref(t) if ret_ref else t

    def emit_stmt_call(self, text, may_throw):
        """a call executed for its effect only (constructors, assignments): always emitted as a statement"""
        self.pre.append('%s;' % text)
        if may_throw:
            self.pre.append(self.exc_check())

    def call(self, e, discard=False, dest=None):
        k = e['kind']
        ch = children(e)
        thisarg = None
        if k == 'CXXMemberCallExpr':
            me = strip_casts(ch[0])
            if me.get('kind') != 'MemberExpr':
                raise Unsupported('member call through ' + str(me.get('kind')))
            base = children(me)[0]
            decl = self.a.by_id.get(me.get('referencedMemberDecl'))
            name = me['name']
            thisarg = (lambda: self.rv(base)) if me.get('isArrow') else (lambda: self.addr(base))
            this_type = self.tm.canon_of(base['type'])
            if me.get('isArrow') and this_type.endswith(' *'):
                this_type = this_type[:-2]
            args = ch[1:]
            ftype = decl['type']['qualType'] if decl else None
        else:
            ce = strip_casts(ch[0])
            if ce.get('kind') != 'DeclRefExpr':
                raise Unsupported('call through ' + str(ce.get('kind')))
            rd = ce['referencedDecl']
            decl = self.a.by_id.get(rd['id'])
            name = rd.get('name')
            ftype = rd['type']['qualType']
            args = ch[1:]
            this_type = None
            if rd.get('kind') == 'CXXMethodDecl' and k == 'CXXOperatorCallExpr':
                obj = args[0]
                args = args[1:]
                thisarg = lambda: self.addr(obj)
                this_type = self.tm.canon_of(obj['type'])
        ret_t = e['type']
        # ---- lowered amc function -------------------------------------------------
        if decl is not None and decl['id'] in self.L.funcs:
            f2 = self.L.funcs[decl['id']]
            self._call_dest = dest
            # the 'basic allocator' concept is an L0 boundary (exact-size ghost semantics); amc's own SimpleAllocator is proved
            # against malloc/realloc/free in its own units
            set_boundary = (self.f.record or '').startswith('SmallSet<') and (f2.record or '').startswith('FlatSet<')
            if set_boundary:
                # SmallSet is proved against the abstract set specification (SetSpec, ghost/l0_sets.h) shared by std::set and FlatSet
                this_type = 'SET'
            elif not (f2.record in L0_BOUNDARY_RECORDS and self.f.record != f2.record):
                return self.call_lowered(f2, thisarg, args, e, discard)
        # ---- element special members / ghost types / external ----------------------
        self._call_dest = dest
        return self.call_external(name, ftype, decl, thisarg, this_type, args, e, discard)

    def call_lowered(self, f2, thisarg, args, e, discard):
        self.L.request(f2)
        if f2.error:
            raise Unsupported('callee %s: %s' % (f2.cname, f2.error))
        params = [c for c in f2.node.get('inner', []) if c.get('kind') == 'ParmVarDecl']
        argt = []
        if thisarg is not None:
            rec_ct = self.tm.ctype(f2.record)
            argt.append('((%s *)%s)' % (rec_ct, self.paren(thisarg())))
        if len(args) > len(params):
            raise Unsupported('variadic call')
        for p, a_ in zip(params, args):
            argt.append(self.arg_for_param(self.tm.canon_of(p['type']), a_))
        self.f.callees.add(f2.cname)
        rq = fn_ret_type(f2.node['type']['qualType'])
        rcanon = self.tm.canon(rq) if rq and not rq.startswith('typename') and 'type-parameter' not in rq else self.tm.canon_of(e['type'])
        # use the call expression's own type (always instantiated) for the C type
        ret_ref = self.cat(e) != 'prvalue'
        ret_ct = self.ctype(e) + (' *' if ret_ref else '')
        try:
            rc_ = self.tm.canon_of(e['type'])
        except Unsupported:
            rc_ = ''
        if not ret_ref and self.L.needs_out(rc_):
            dest = getattr(self, '_call_dest', None)
            self._call_dest = None
            tmpname = None
            if dest is None:
                ct_ = self.tm.ctype(rc_)
                tmpname = self.tmp(ct_)
                self.pre.append(self.fresh_local_text(tmpname, self.tm.ctype(rc_)))
                dest = '&' + tmpname
            argt.append(dest)
            self.emit_stmt_call('%s(%s)' % (f2.cname, ', '.join(argt)), self.L.may_throw(f2))
            if tmpname is not None:
                self.temps_to_destroy.append((tmpname, self.tm.ctype(rc_)))
                return tmpname
            return ''
        text = '%s(%s)' % (f2.cname, ', '.join(argt))
        return self.emit_call(text, ret_ct, self.L.may_throw(f2), ret_ref, discard)

    NOTHROW_EXT = {'memcpy', 'memmove', 'destroy', 'destroy_at', 'destroy_n', 'free', 'deallocate', 'move_backward_nothrow'}

    def call_external(self, name, ftype, decl, thisarg, this_type, args, e, discard):
        L = self.L
        ptypes = [self.tm.NS_RE.sub('', p) for p in fn_param_types(ftype)] if ftype else []
        if decl is not None:
            # the declaration is in the dump: its parameter types are desugared there (references hidden behind typedefs)
            dps = [c for c in decl.get('inner', []) if c.get('kind') == 'ParmVarDecl']
            if len(dps) == len(ptypes):
                ptypes = [(c['type'].get('desugaredQualType') or c['type']['qualType']) for c in dps]
                ptypes = [self.tm.NS_RE.sub('', p) for p in ptypes]
        is_ref = [strip_cv(p).endswith('&') for p in ptypes]
        while len(is_ref) < len(args):
            is_ref.append(False)
        # -- inline rules
        if thisarg is None and name in ('move', 'forward', 'move_if_noexcept') and len(args) == 1:
            return self.lv(args[0])
        if thisarg is None and name == 'addressof':
            return self.addr(args[0])
        if thisarg is None and name in ('min', 'max') and len(args) == 2:
            x, y = self.val(args[0]), self.val(args[1])
            ct = self.ctype(e)
            tx, ty = self.tmp(ct, x), self.tmp(ct, y)
            return '(%s %s %s ? %s : %s)' % (ty if name == 'min' else tx, '<', tx if name == 'min' else ty, ty if name == 'min' else ty, tx) if False else \
                   ('(%s < %s ? %s : %s)' % (ty, tx, ty, tx) if name == 'min' else '(%s < %s ? %s : %s)' % (tx, ty, ty, tx))
        if thisarg is None and name == 'exchange' and len(args) == 2 and not self.tm.is_elem(e['type']):
            ct = self.ctype(e)
            x = self.lv(args[0])
            t = self.tmp(ct, x)
            self.pre.append('%s = (%s)%s;' % (x, ct, self.paren(self.val(args[1]))))
            return t
        if thisarg is None and name == 'swap' and len(args) == 2:
            ty = args[0]['type']
            if self.tm.is_elem(ty):
                self.pre.append('L0_E_swap(%s, %s);' % (self.addr(args[0]), self.addr(args[1])))
                self.f.l0.add('L0_E_swap')
                return ''
            ct = self.tm.ctype_of(ty)
            x, y = self.lv(args[0]), self.lv(args[1])
            t = self.tmp(ct, x)
            self.pre.append('%s = %s; %s = %s;' % (x, y, y, t))
            return ''
        if thisarg is None and name == 'distance' and len(args) == 2 and self.ctype(args[0]).endswith('*'):
            a1, a0 = self.val(args[1]), self.val(args[0])
            if re.search(r'\+\+|--|\w\(', a1):
                a1 = self.tmp(self.ctype(args[1]), a1)
            if re.search(r'\+\+|--|\w\(', a0):
                a0 = self.tmp(self.ctype(args[0]), a0)
            return 'L0_PDIFF(%s, %s)' % (self.paren(a1), self.paren(a0))
        if thisarg is None and name in ('next', 'prev') and self.ctype(args[0]).endswith('*'):
            n = self.val(args[1]) if len(args) > 1 and args[1].get('kind') != 'CXXDefaultArgExpr' else '1'
            return '(%s %s %s)' % (self.paren(self.val(args[0])), '+' if name == 'next' else '-', self.paren(n))
        if thisarg is None and name in ('max', 'min') and len(args) == 0:
            ct = self.ctype(e)
            tbl = {('max', 'uint8_t'): '255', ('max', 'uint16_t'): '65535', ('max', 'uint32_t'): '4294967295U',
                   ('max', 'uint64_t'): '18446744073709551615UL', ('max', 'int8_t'): '127', ('max', 'int64_t'): '9223372036854775807L',
                   ('min', 'uint8_t'): '0', ('min', 'uint16_t'): '0', ('min', 'uint32_t'): '0', ('min', 'uint64_t'): '0'}
            if (name, ct) in tbl:
                return '((%s)%s)' % (ct, tbl[(name, ct)])
            raise Unsupported('numeric_limits %s of %s' % (name, ct))
        if thisarg is None and name == 'make_move_iterator' and len(args) == 1:
            return '(%s){%s}' % (self.ctype(e), self.val(args[0]))
        if name == '__assert_fail':
            self.f.l0.add('L0_assert_fail')
            return 'L0_assert_fail()'
        if name == '__builtin_expect':
            return self.val(args[0])
        # -- element special members
        if this_type is not None and this_type == self.elem:
            if name == 'operator=':
                p0 = strip_cv(ptypes[0]) if ptypes else ''
                prim = 'L0_E_move_assign' if p0.endswith('&&') else 'L0_E_copy_assign'
                self.f.l0.add(prim)
                # C++17 sequencing of an assignment: right operand first, then the left one, each evaluated exactly once
                rhs = self.addr(args[0])
                if re.search(r'\+\+|--|\w\(', rhs):
                    rhs = self.tmp('E *', rhs)
                lhs = thisarg()
                if re.search(r'\+\+|--|\w\(', lhs):
                    lhs = self.tmp('E *', lhs)
                text = '%s(%s, %s)' % (prim, lhs, rhs)
                self.emit_stmt_call(text, prim == 'L0_E_copy_assign' or not L.facts.get('nothrow_move_assign', True))
                return deref(lhs)
            if name.startswith('~'):
                self.f.l0.add('L0_E_destroy')
                self.pre.append('L0_E_destroy(%s);' % thisarg())
                return ''
            raise Unsupported('element member ' + name)
        # -- generic L0 primitive
        argt = []
        sig = []
        if thisarg is not None:
            argt.append(thisarg())
            ttag = 'SET' if this_type == 'SET' else self.tm.tag(this_type)
            opn = name
            if name.startswith('operator'):
                opn = 'op_' + {'()': 'call', '=': 'assign', '*': 'deref', '->': 'arrow', '==': 'eq', '!=': 'ne', '<': 'lt', '++': 'inc', '--': 'dec',
                               '[]': 'index'}.get(name[len('operator'):].strip(), re.sub(r'\W', '_', name[len('operator'):].strip()))
                if name.strip() == 'operator()':
                    opn = 'call'
            base = 'L0_%s__%s' % (ttag, re.sub(r'\W', '_', opn))
            if this_type == 'SET' and decl is not None and self.L._is_const_method(decl):
                base += '_c'
        else:
            base = 'L0_' + re.sub(r'\W', '_', name.replace('operator==', 'op_eq').replace('operator<', 'op_lt').replace('operator!=', 'op_ne'))
        for a_, r in zip(args, is_ref):
            if a_.get('kind') == 'CXXDefaultArgExpr' and not children(a_):
                continue
            sig.append(self.arg_sig(a_))
            argt.append(self.addr(a_) if r else self.val(a_))
        prim = base + ('__' + '_'.join(sig) if sig else '')
        self.f.l0.add(prim)
        ret_ref = self.cat(e) != 'prvalue'
        ret_ct = self.ctype(e) + (' *' if ret_ref else '')
        try:
            rc_ = self.tm.canon_of(e['type'])
        except Unsupported:
            rc_ = ''
        if not ret_ref and self.L.needs_out(rc_) and not self.tm.is_elem(e['type']):
            # a class prvalue that owns an element is built in place by the primitive (hidden out-parameter), as for lowered functions
            dest = getattr(self, '_call_dest', None)
            self._call_dest = None
            tmpname = None
            if dest is None:
                tmpname = self.tmp(self.tm.ctype(rc_))
                self.pre.append(self.fresh_local_text(tmpname, self.tm.ctype(rc_)))
                dest = '&' + tmpname
            argt.append(dest)
            self.emit_stmt_call('%s(%s)' % (prim, ', '.join(argt)), name not in self.NOTHROW_EXT)
            if tmpname is not None:
                self.temps_to_destroy.append((tmpname, self.tm.ctype(rc_)))
                return tmpname
            return ''
        if self.tm.is_elem(e['type']) and not ret_ref:
            raise Unsupported('external call returning element by value')
        may = name not in self.NOTHROW_EXT
        return self.emit_call('%s(%s)' % (prim, ', '.join(argt)), ret_ct, may, ret_ref, discard)

    # -------------------------------------------------------------- construction
    def unwrap_ctor(self, e):
        while e.get('kind') in ('ExprWithCleanups', 'CXXBindTemporaryExpr', 'CXXFunctionalCastExpr', 'ImplicitCastExpr', 'ParenExpr') and children(e):
            if e.get('kind') in ('ImplicitCastExpr', 'CXXFunctionalCastExpr') and e.get('castKind') not in ('NoOp', 'ConstructorConversion'):
                break
            e = children(e)[-1]
        return e

    def construct_into(self, e, dest):
        """emit (as pre-statements) the construction of the object denoted by prvalue e at address dest"""
        e = self.unwrap_ctor(e)
        k = e['kind']
        if k in ('CXXConstructExpr', 'CXXTemporaryObjectExpr'):
            args = children(e)
            ptypes = [strip_cv(self.tm.NS_RE.sub('', p)) for p in fn_param_types(e['ctorType']['qualType'])]
            if self.tm.is_elem(e['type']):
                if e.get('elidable') and len(args) == 1 and self.cat(args[0]) == 'prvalue':
                    return self.construct_into(args[0], dest)
                nothrow = False
                if len(ptypes) == 0:
                    prim, at = 'L0_E_value_construct', []
                elif len(ptypes) == 1 and self.tm.canon(ptypes[0]) == self.elem + ' &':
                    prim, at = 'L0_E_copy_construct', [self.addr(args[0])]
                elif len(ptypes) == 1 and self.tm.canon(ptypes[0]) == self.elem + ' &&':
                    prim, at = 'L0_E_move_construct', [self.addr(args[0])]
                    nothrow = self.L.facts.get('nothrow_move_construct', True)
                else:
                    prim = 'L0_E_construct_from__' + '_'.join(self.tm.tag(self.tm.canon(p)) for p in ptypes)
                    at = [self.arg_for_param(self.tm.canon(p), a_) for p, a_ in zip(ptypes, args)]
                self.f.l0.add(prim)
                self.emit_stmt_call('%s(%s)' % (prim, ', '.join([dest] + at)), not nothrow)
                return
            canon = self.canon_t(e)
            if canon.startswith('std::optional<'):
                otag = self.tm.tag(canon)
                if len(ptypes) == 0:
                    prim, at = 'L0_%s__ctor' % otag, []
                elif self.tm.canon(ptypes[0]).rstrip('& ').strip() == canon:
                    prim, at = 'L0_%s__ctor_move' % otag, [self.addr(args[0])]
                elif self.tm.canon(ptypes[0]) == self.elem + ' &&':
                    prim, at = 'L0_%s__ctor_from_rrE' % otag, [self.addr(args[0])]
                elif 'nullopt' in ptypes[0]:
                    prim, at = 'L0_%s__ctor' % otag, []
                else:
                    raise Unsupported('optional constructor from %s' % ptypes)
                self.f.l0.add(prim)
                self.emit_stmt_call('%s(%s)' % (prim, ', '.join([dest] + at)), False)
                return
            ctor = self.L.find_ctor(canon, ptypes)
            if ctor is not None:
                self.L.request(ctor)
                if ctor.error:
                    raise Unsupported('ctor %s: %s' % (ctor.cname, ctor.error))
                params = [c for c in ctor.node.get('inner', []) if c.get('kind') == 'ParmVarDecl']
                at = ['((%s *)%s)' % (self.tm.ctype(canon), self.paren(dest))] + [self.arg_for_param(self.tm.canon_of(p['type']), a_) for p, a_ in zip(params, args)]
                self.f.callees.add(ctor.cname)
                self.emit_stmt_call('%s(%s)' % (ctor.cname, ', '.join(at)), self.L.may_throw(ctor))
                return
            self.pre.append('%s = %s;' % (deref(dest), self.construct_value(e)))
            return
        if k in ('CallExpr', 'CXXMemberCallExpr', 'CXXOperatorCallExpr'):
            try:
                rc_ = self.tm.canon_of(e['type'])
            except Unsupported:
                rc_ = ''
            if self.L.needs_out(rc_):
                self.call(e, dest=dest)
                return
        if k == 'InitListExpr':
            # aggregate initialisation: every member is initialised IN PLACE from its initialiser (no temporary, no byte copy
            # of a member that owns an element)
            rec = self.L.records.get(self.canon_t(e))
            fields = [c for c in (rec or {}).get('inner', []) if c.get('kind') == 'FieldDecl']
            inits = children(e)
            if rec is not None and not rec.get('bases') and len(fields) == len(inits):
                for fd, init in zip(fields, inits):
                    fct = self.tm.ctype(self.tm.canon_of(fd['type']))
                    place = '&(%s)->%s' % (self.paren(dest), fd['name'])
                    if fct == 'E' or fct.startswith('struct '):
                        self.construct_into(init, place)
                    else:
                        self.pre.append('%s = %s;' % (deref(place), self.val(init)))
                return
        self.pre.append('%s = %s;' % (deref(dest), self.rv(e)))

    def construct_value(self, e):
        """class prvalue usable as a C value (trivial classes / aggregates only)"""
        args = children(e)
        canon = self.canon_t(e)
        ct = self.tm.ctype(canon)
        if self.tm.is_elem(e['type']):
            raise Unsupported('element prvalue as value')
        ptypes = [strip_cv(self.tm.NS_RE.sub('', p)) for p in fn_param_types(e['ctorType']['qualType'])]
        ctor = self.L.find_ctor(canon, ptypes)
        if ctor is not None:
            t = self.tmp(ct)
            self.construct_into(e, '&' + t)
            return t
        if len(args) == 0:
            return '(%s){0}' % ct
        if len(args) == 1 and self.tm.canon(ptypes[0]).rstrip('& ').strip() == canon:
            return self.val(args[0])
        if canon.startswith('std::pair<') and len(args) == 2:
            return '(%s){%s, %s}' % (ct, self.val(args[0]), self.val(args[1]))
        if canon.startswith('std::reverse_iterator<') or canon.startswith('std::move_iterator<'):
            return '(%s){%s}' % (ct, self.val(args[0]))
        raise Unsupported('construct value of %s from %s' % (canon, ptypes))

    def new_expr(self, e):
        ch = children(e)
        if len(ch) != 2:
            raise Unsupported('new expression shape')
        ctor, place = ch
        p = self.rv(place)
        t = self.tmp(self.ctype(e), '(%s)%s' % (self.ctype(e), self.paren(p)))
        uc = self.unwrap_ctor(ctor)
        if e.get('initStyle') is None and uc.get('kind') == 'CXXConstructExpr' and not children(uc) and self.tm.is_elem(uc['type']):
            # 'new (p) T;' is DEFAULT-initialisation, not value-initialisation: for a type without a user-provided default constructor
            # the scalar members stay indeterminate.  The element type is generic, so the two are kept apart.
            self.f.l0.add('L0_E_default_construct')
            self.emit_stmt_call('L0_E_default_construct(%s)' % t, True)
            return t
        self.construct_into(ctor, t)
        return t

    # =================================================================================================================
    # Part 3: statements
    # =================================================================================================================
    def new_label(self, base):
        self.labeln += 1
        return 'L_%s_%d' % (base, self.labeln)

    def expr_stmt(self, e, out, ind, assign_to=None, as_addr=False):
        """full-expression statement with element-temporary cleanups on both edges; with assign_to the value of the expression is
        kept in that variable (return statements whose expression creates temporaries)"""
        saved_temps = self.temps_to_destroy
        self.temps_to_destroy = []
        pad = self.new_label('cleanup')
        self.handlers.append(pad)
        used_before = self.uses_exc_exit
        try:
            top = e
            while top.get('kind') in ('ExprWithCleanups', 'ParenExpr') and children(top):
                top = children(top)[0]
            if assign_to is not None:
                text = '%s = %s' % (assign_to, self.addr(e) if as_addr else self.val(e))
            elif top.get('kind') == 'BinaryOperator' and top.get('opcode') == '=' and not self.tm.is_elem(top['type']):
                rhs = self.val(children(top)[1])
                text = '%s = %s' % (self.lv(children(top)[0]), rhs)
            elif top.get('kind') == 'CompoundAssignOperator':
                rhs = self.val(children(top)[1])
                text = '%s %s %s' % (self.lv(children(top)[0]), top['opcode'], rhs)
            else:
                text = self.val(e) if e.get('kind') not in ('CXXThrowExpr',) else self.rv(e)
        finally:
            self.handlers.pop()
        temps = self.temps_to_destroy
        self.temps_to_destroy = saved_temps
        lines = self.flush()
        if text and text not in ('((void)0)',) and not re.match(r'^\(?\*?tmp\d+\)?$', text):
            lines.append('%s;' % text)
        if not temps:
            outer = self.handlers[-1]
            lines = [l.replace('goto %s;' % pad, 'goto %s;' % outer) for l in lines]
            for l in lines:
                out.append(ind + l)
            return
        for t, ct in temps:
            self.decl_lines.append('_Bool %s_live = 0;' % t)
        fixed = []
        for l in lines:
            fixed.append(l)
        # mark temporaries live right after their construction: conservative = after the statement that constructs them
        for t, ct in temps:
            out.append(ind + '%s_live = 0;' % t)
        for l in fixed:
            out.append(ind + l)
            for t, ct in temps:
                if re.search(r'L0_E_\w*construct\w*\(&%s\b' % t, l) or re.search(r'__ctor__\w*\(\(\w[\w ]*\*\)\(?&%s\b' % t, l) or re.search(r'\w\([^;]*, &%s\);$' % t, l) or re.search(r'L0_optional\w*\(&%s\b' % t, l):
                    out.append(ind + 'if (!l0_exc) %s_live = 1;' % t)
        after = self.new_label('after')
        for t, ct in reversed(temps):
            out.append(ind + self.destroy_text(t, ct, guard=True))
        out.append(ind + 'goto %s;' % after)
        out.append(pad + ':')
        out.append(ind + '{ int saved_exc_%s = l0_exc; l0_exc = 0;' % pad)
        for t, ct in reversed(temps):
            out.append(ind + '  ' + self.destroy_text(t, ct, guard=True))
        self.uses_exc_exit = True
        out.append(ind + '  l0_exc = saved_exc_%s; goto %s; }' % (pad, self.handlers[-1]))
        out.append(after + ': ;')

    def destroy_text(self, name, ct, guard=False):
        g = 'if (%s_live) { %s_live = 0; ' % (name, name) if guard else '{ '
        if ct == 'E':
            self.f.l0.add('L0_E_destroy')
            return g + 'L0_E_destroy(&%s); }' % name
        if ct.startswith('struct optional_'):
            self.f.l0.add('L0_%s__dtor' % ct[len('struct '):])
            return g + 'L0_%s__dtor(&%s); }' % (ct[len('struct '):], name)
        d = self.L.find_dtor_ct(ct)
        if d is not None:
            self.L.request(d)
            self.f.callees.add(d.cname)
            return g + '%s(&%s); }' % (d.cname, name)
        return g + '}'

    def stmt(self, s, out, ind='  '):
        k = s.get('kind')
        ch = children(s)
        if k is None:
            return
        if k == 'CompoundStmt':
            out.append(ind + '{')
            for c in ch:
                self.stmt(c, out, ind + '  ')
            out.append(ind + '}')
            return
        if k == 'NullStmt':
            out.append(ind + ';'); return
        if k == 'BreakStmt':
            out.append(ind + 'break;'); return
        if k == 'ContinueStmt':
            out.append(ind + 'continue;'); return
        if k == 'DeclStmt':
            for d in ch:
                self.var_decl(d, out, ind)
            return
        if k == 'IfStmt':
            if s.get('hasInit') or s.get('hasVar'):
                raise Unsupported('if with init/var')
            is_constexpr = s.get('isConstexpr')
            cond = self.rv(ch[0])
            for l in self.flush():
                out.append(ind + l)
            out.append(ind + 'if (%s)' % cond)
            self.stmt_block(ch[1], out, ind)
            if len(ch) > 2 and ch[2].get('kind'):
                out.append(ind + 'else')
                self.stmt_block(ch[2], out, ind)
            return
        if k == 'ForStmt':
            init, condvar, cond, inc, body = (s.get('inner') + [{}] * 5)[:5]
            out.append(ind + '{')
            if init.get('kind'):
                self.stmt(init, out, ind + '  ')
            pc, ctext = self.sub_scoped(cond, self.rv) if cond.get('kind') else ([], '1')
            pi, itext = self.sub_scoped(inc, self.discard) if inc.get('kind') else ([], '')
            if pc or pi:
                raise Unsupported('loop condition/increment with hoisted calls')
            self.loopn += 1
            out.append(ind + '  for (; %s; %s)' % (ctext, itext))
            out.append('/*@LOOP %d@*/' % self.loopn)
            self.stmt_block(body, out, ind + '  ')
            out.append(ind + '}')
            return
        if k == 'WhileStmt':
            cond, body = ch[0], ch[1]
            pc, ctext = self.sub_scoped(cond, self.rv)
            self.loopn += 1
            if pc:
                # the condition contains calls that had to be hoisted: they are re-evaluated at the head of every iteration
                out.append(ind + 'while (1)')
                out.append('/*@LOOP %d@*/' % self.loopn)
                out.append(ind + '{')
                for l in pc:
                    out.append(ind + '  ' + l)
                out.append(ind + '  if (!(%s)) break;' % ctext)
                self.stmt_block(body, out, ind + '  ')
                out.append(ind + '}')
                return
            out.append(ind + 'while (%s)' % ctext)
            out.append('/*@LOOP %d@*/' % self.loopn)
            self.stmt_block(body, out, ind)
            return
        if k == 'ReturnStmt':
            if not ch:
                out.append(ind + 'return;')
                return
            e = ch[0]
            if self.ret_by_out:
                ue = self.unwrap_ctor(e)
                # NRVO: returning a local that was constructed in place
                inner = strip_casts(ue if ue.get('kind') != 'CXXConstructExpr' else children(ue)[0] if children(ue) else ue)
                if inner.get('kind') == 'DeclRefExpr' and inner['referencedDecl']['id'] in self.nrvo:
                    for l in self.flush():
                        out.append(ind + l)
                    out.append(ind + 'return;')
                    return
                self.construct_into(e, 'ret')
                for l in self.flush():
                    out.append(ind + l)
                out.append(ind + 'return;')
                return
            saved_temps, self.temps_to_destroy = self.temps_to_destroy, []
            text = self.addr(e) if self.ret_is_ref else self.val(e)
            if self.temps_to_destroy:
                # the return expression creates element temporaries: evaluate it as a full expression into a result variable,
                # destroy the temporaries on both edges, then return (the first, plain attempt is discarded)
                self.flush()
                self.temps_to_destroy = saved_temps
                rt = self.tmp(self.ret_ctype)
                self.expr_stmt(e, out, ind, assign_to=rt, as_addr=self.ret_is_ref)
                out.append(ind + 'return %s;' % rt)
                return
            self.temps_to_destroy = saved_temps
            for l in self.flush():
                out.append(ind + l)
            out.append(ind + 'return %s;' % text)
            return
        if k == 'CXXTryStmt':
            body = ch[0]
            catches = ch[1:]
            if len(catches) != 1:
                raise Unsupported('multiple catch clauses')
            cs = catches[0]
            cch = children(cs)
            if len(cch) == 2 and cch[0].get('kind') == 'VarDecl':
                raise Unsupported('typed catch clause')
            handler_body = cch[-1]
            lab = self.new_label('catch')
            after = self.new_label('aftertry')
            self.handlers.append(lab)
            self.stmt(body, out, ind)
            self.handlers.pop()
            out.append(ind + 'goto %s;' % after)
            out.append(lab + ':')
            sv = 'saved_exc_%d' % self.labeln
            out.append(ind + '{ int %s = l0_exc; l0_exc = 0;' % sv)
            self.saved_exc.append(sv)
            self.stmt(handler_body, out, ind + '  ')
            self.saved_exc.pop()
            out.append(ind + '}')
            out.append(after + ': ;')
            return
        if k.endswith('Expr') or k.endswith('Operator') or k in ('ExprWithCleanups',):
            self.expr_stmt(s, out, ind)
            return
        raise Unsupported('statement kind ' + k)

    def stmt_block(self, s, out, ind):
        out.append(ind + '{')
        if s.get('kind') == 'CompoundStmt':
            for c in children(s):
                self.stmt(c, out, ind + '  ')
        else:
            self.stmt(s, out, ind + '  ')
        out.append(ind + '}')

    def var_decl(self, d, out, ind):
        if d.get('kind') != 'VarDecl':
            if d.get('kind') in ('TypeAliasDecl', 'TypedefDecl', 'StaticAssertDecl', 'UsingDecl'):
                return
            raise Unsupported('declaration ' + str(d.get('kind')))
        tq = d['type'].get('desugaredQualType') or d['type']['qualType']
        canon = self.tm.canon_of(d['type'])
        name = self.local_name(d)
        ch = children(d)
        init = ch[-1] if ch and d.get('init') else None
        if d.get('storageClass') == 'static':
            raise Unsupported('static local')
        if canon.endswith('&'):
            ct = self.tm.ctype(canon)
            self.locals[d['id']] = (name, True)
            saved_temps, self.temps_to_destroy = self.temps_to_destroy, []
            text = self.addr(init)
            if self.temps_to_destroy:
                raise Unsupported('reference bound to element temporary')
            self.temps_to_destroy = saved_temps
            for l in self.flush():
                out.append(ind + l)
            out.append(ind + '%s %s = %s;' % (ct, name, text))
            return
        m = re.match(r'^(.*)\[(\d+)\]$', canon)
        if m:
            raise Unsupported('local array')
        ct = self.tm.ctype(canon)
        self.locals[d['id']] = (name, False)
        if ct == 'E' or (ct.startswith('struct ') and init is not None and (self.unwrap_ctor(init).get('kind') in ('CXXConstructExpr', 'CXXTemporaryObjectExpr') or self.L.needs_out(canon))):
            if d.get('nrvo') and self.ret_by_out:
                self.nrvo.add(d['id'])
                self.locals[d['id']] = ('ret', True)
                if init is None:
                    raise Unsupported('nrvo without init')
                self.construct_into(init, 'ret')
                for l in self.flush():
                    out.append(ind + l)
                self.ret_constructed = True
                return
            # declared at function level: the clean-up code of every exit edge names the object (guarded by its live flag)
            self.decl_lines.append('%s %s;' % (ct, name))
            out.append(ind + self.fresh_local_text(name, ct))
            if init is not None:
                self.construct_into(init, '&' + name)
                for l in self.flush():
                    out.append(ind + l)
            if ct == 'E' or self.L.find_dtor_ct(ct) is not None:
                self.scope_objs.append((name, ct))
                self.decl_lines.append('_Bool %s_live = 0;' % name)
                out.append(ind + '%s_live = 1;' % name)
            return
        if init is None:
            out.append(ind + '%s %s;' % (ct, name))
            if ct.startswith('struct ') or ct == 'E':
                out.append(ind + self.fresh_local_text(name, ct))
            return
        saved_temps, self.temps_to_destroy = self.temps_to_destroy, []
        pad = None
        text = self.val(init)
        temps = self.temps_to_destroy
        self.temps_to_destroy = saved_temps
        if temps:
            raise Unsupported('element temporary in initialiser')
        for l in self.flush():
            out.append(ind + l)
        out.append(ind + '%s %s = %s;' % (ct, name, text))

    def local_name(self, d):
        nm = d.get('name') or 'unnamed'
        base = nm if nm not in ('self', 'ret', 'l0_exc') else nm + '_'
        used = {v[0] for v in self.locals.values()}
        cand = base
        i = 1
        while cand in used or cand in self.all_names:
            i += 1
            cand = '%s_%d' % (base, i)
        self.all_names.add(cand)
        return cand

    # =================================================================================================================
    # Part 4: whole function
    # =================================================================================================================
    def emit(self):
        f, n = self.f, self.f.node
        self.all_names = set()
        self.loopn = 0
        self.nrvo = set()
        self.scope_objs = []
        self.temps_to_destroy = []
        self.ret_constructed = False
        kind = n['kind']
        params = []
        if f.record is not None and n.get('storageClass') != 'static':
            params.append('%s *self' % self.tm.ctype(f.record))
        for p in [c for c in n.get('inner', []) if c.get('kind') == 'ParmVarDecl']:
            canon = self.tm.canon_of(p['type'])
            name = self.local_name(p)
            is_ref = canon.endswith('&')
            self.locals[p['id']] = (name, is_ref)
            params.append('%s %s' % (self.tm.ctype(canon), name))
        rq = fn_ret_type(n['type']['qualType'])
        if kind in ('CXXConstructorDecl', 'CXXDestructorDecl'):
            rct = 'void'
        else:
            rcanon = self.tm.canon(rq)
            if '::' in rcanon and '<' not in rcanon and f.record and not rcanon.startswith('std::'):
                head, member = rcanon.rsplit('::', 1)
                if f.record.startswith(head + '<'):
                    r = self.L.resolve_member_alias(f.record, member.rstrip('&* '))
                    if r:
                        rcanon = r
            if re.search(r'enable_if|type-parameter|conditional<|remove_reference', rcanon) or re.fullmatch(r'[A-Za-z_]\w*::\w+( [*&])?', rcanon):
                def first_ret(n):
                    if n.get('kind') == 'ReturnStmt' and children(n):
                        return children(n)[0]
                    for c in children(n):
                        r = first_ret(c)
                        if r is not None:
                            return r
                    return None
                re_ = first_ret(body_of(n))
                if re_ is None:
                    raise Unsupported('cannot determine return type ' + rcanon)
                rcanon = self.tm.canon_of(re_['type'])
                if re_.get('valueCategory') in ('lvalue', 'xvalue') and rq.rstrip().endswith('&'):
                    rcanon += ' &'
            self.ret_is_ref = rcanon.endswith('&')
            if self.L.needs_out(rcanon):
                self.ret_by_out = True
                self.ret_out_ct = self.tm.ctype(rcanon)
                params.append('%s *ret' % self.ret_out_ct)
                rct = 'void'
            else:
                rct = self.tm.ctype(rcanon)
        self.ret_ctype = rct
        body = []
        self.ctor_cleanups = []
        if kind == 'CXXConstructorDecl':
            self.ctor_inits(n, body)
            if self.ctor_cleanups:
                self.decl_lines.append('int ctor_stage = 0;')
        b = body_of(n)
        self.stmt(b, body, '  ')
        if kind == 'CXXDestructorDecl':
            self.dtor_tail(body)
        noex = self.L.noexcept_of(f)
        lines = []
        proto = '%s %s(%s)' % (rct, f.cname, ', '.join(params) if params else 'void')
        f.proto = proto
        lines.append(proto)
        lines.append('/*@CONTRACT %s@*/' % f.cname)
        lines.append('{')
        for d in self.decl_lines:
            lines.append('  ' + d)
        lines.extend(body)
        # normal fall-through exit
        for name, ct in reversed(self.scope_objs):
            lines.append('  ' + self.destroy_text(name, ct, guard=True))
        if rct != 'void':
            if self.falls_through(b):
                self.f.l0.add('L0_missing_return')
                lines.append('  L0_missing_return();')
            lines.append('  return %s;' % self.zero_of(rct))
        else:
            lines.append('  return;')
        if self.uses_exc_exit:
            lines.append('L_exc_exit:')
            lines.append('  { int saved_exit = l0_exc; l0_exc = 0;')
            for name, ct in reversed(self.scope_objs):
                lines.append('    ' + self.destroy_text(name, ct, guard=True))
            if self.ret_by_out and self.ret_constructed:
                lines.append('    ' + self.destroy_text('(*ret)', self.ret_out_ct).replace('&(*ret)', 'ret'))
            for stage, nm, sct in reversed(self.ctor_cleanups):
                lines.append('    if (ctor_stage >= %d) %s' % (stage, self.destroy_text(nm, sct)))
            lines.append('    l0_exc = saved_exit; }')
            if noex is True:
                self.f.l0.add('L0_terminate')
                lines.append('  L0_terminate();')
            lines.append('  return%s;' % ('' if rct == 'void' else ' ' + self.zero_of(rct)))
        lines.append('}')
        # scope objects must also be destroyed before explicit returns: handled conservatively
        if self.scope_objs:
            fixed = []
            for l in lines:
                m = re.match(r'^(\s*)return\b(.*);$', l)
                if m and not l.startswith('  return') :
                    pre = ' '.join(self.destroy_text(nm, ct, guard=True) for nm, ct in reversed(self.scope_objs))
                    if m.group(2).strip() and re.search(r'\b(%s)\b' % '|'.join(nm for nm, _ in self.scope_objs), m.group(2)):
                        raise Unsupported('return expression uses a local object with destructor')
                    fixed.append(m.group(1) + pre + ' return' + m.group(2) + ';')
                else:
                    fixed.append(l)
            lines = fixed
        f.text = '\n'.join(lines)
        f.nloops = self.loopn
        f.noexcept = noex

    def falls_through(self, b):
        ch = children(b)
        if not ch:
            return True
        last = ch[-1]
        if last.get('kind') == 'ReturnStmt':
            return False
        if last.get('kind') == 'CXXTryStmt':
            return self.falls_through(children(last)[0])
        if last.get('kind') == 'CompoundStmt':
            return self.falls_through(last)
        if last.get('kind') == 'IfStmt':
            c = children(last)
            if len(c) > 2 and c[2].get('kind'):
                def ft(x):
                    return self.falls_through(x) if x.get('kind') == 'CompoundStmt' else x.get('kind') != 'ReturnStmt'
                return ft(c[1]) or ft(c[2])
        if last.get('kind') in ('CXXThrowExpr',):
            return False
        return True

    def ctor_inits(self, n, out):
        rec = self.L.records.get(self.f.record)
        for ci in [c for c in n.get('inner', []) if c.get('kind') == 'CXXCtorInitializer']:
            ch = children(ci)
            if not ch:
                continue
            init = ch[0]
            if 'anyInit' in ci:
                fd = ci['anyInit']
                fname = fd['name']
                canon = self.tm.canon_of(fd['type'])
                if re.search(r'\[\d*\]$', canon):
                    continue    # array members: default-initialised storage, nothing to run
                ct = self.tm.ctype(canon)
                if canon.endswith('&'):
                    self.pre.append('self->%s = %s;' % (fname, self.addr(init)))
                elif ct.startswith('struct ') or ct == 'E':
                    self.construct_into(init, '&self->%s' % fname)
                else:
                    text = self.val(init)
                    self.pre.append('self->%s = %s;' % (fname, text))
            elif 'baseInit' in ci:
                bct = self.tm.ctype_of(ci['baseInit'])
                self.construct_into(init, '((%s *)self)' % bct)
            else:
                raise Unsupported('ctor initializer kind')
            for l in self.flush():
                out.append('  ' + l)
            # a constructor that exits by exception destroys the sub-objects it has completed, in reverse order
            if 'anyInit' in ci:
                sub_ct, sub_nm = (None if (re.search(r'\[\d*\]$', canon) or canon.endswith('&')) else ct), '(self->%s)' % fname
            else:
                sub_ct, sub_nm = bct, '(*(%s *)self)' % bct
            if sub_ct is not None and (sub_ct == 'E' or sub_ct.startswith('struct optional_') or (sub_ct.startswith('struct ') and self.L.find_dtor_ct(sub_ct) is not None)):
                self.ctor_cleanups.append((len(self.ctor_cleanups) + 1, sub_nm, sub_ct))
                out.append('  ctor_stage = %d;' % len(self.ctor_cleanups))

    def dtor_tail(self, out):
        L = self.L
        rec = L.records.get(self.f.record)
        if rec is None:
            return
        fields = [c for c in rec.get('inner', []) if c.get('kind') == 'FieldDecl']
        for fd in reversed(fields):
            canon = self.tm.canon_of(fd['type'])
            if re.search(r'\[\d*\]$', canon):
                continue
            ct = self.tm.ctype(canon)
            if ct == 'E':
                out.append('  L0_E_destroy(&self->%s);' % fd['name'])
            elif ct.startswith('struct optional_'):
                self.f.l0.add('L0_%s__dtor' % ct[len('struct '):])
                out.append('  L0_%s__dtor(&self->%s);' % (ct[len('struct '):], fd['name']))
            elif ct.startswith('struct '):
                d = L.find_dtor_ct(ct)
                if d is not None:
                    L.request(d); self.f.callees.add(d.cname)
                    out.append('  %s(&self->%s);' % (d.cname, fd['name']))
        for b in reversed(rec.get('bases', [])):
            bct = self.tm.ctype_of(b['type'])
            d = L.find_dtor_ct(bct)
            if d is not None:
                L.request(d); self.f.callees.add(d.cname)
                out.append('  %s((%s *)self);' % (d.cname, bct))


# =====================================================================================================================
# Part 5: driver of the lowering (worklist, structs, output)
# =====================================================================================================================
def _noexcept_expr(q):
    m = re.search(r'\)\s*(const\s*)?(&{0,2}\s*)?noexcept(\(.*\))?\s*$', q)
    if not m:
        return None
    return m.group(3)[1:-1] if m.group(3) else True

class LoweringDriver(Lowering):
    def __init__(self, ast, elem, other_elems, facts=None):
        super().__init__(ast, elem, other_elems, facts)
        self.resolve_names()
        self.worklist = []
        self.done = []
        self.ctor_index = collections.defaultdict(list)
        self.dtor_index = {}
        for f in self.funcs.values():
            if f.error or f.record is None:
                continue
            if f.node['kind'] == 'CXXConstructorDecl':
                self.ctor_index[f.record].append(f)
            elif f.node['kind'] == 'CXXDestructorDecl':
                self.dtor_index[f.record] = f

    def request(self, f):
        if f.text is None and f.error is None and f not in self.worklist and not getattr(f, 'busy', False):
            self.worklist.append(f)

    def noexcept_of(self, f):
        ne = _noexcept_expr(f.node['type']['qualType'])
        if ne is None:
            return False
        if ne is True:
            return True
        v = self.facts.get('noexcept', {}).get(ne)
        if v is None:
            self.missing_facts.add(ne)
            return False   # conservative: potentially throwing, no terminate obligation
        return bool(v)

    missing_facts = set()

    def may_throw(self, f):
        return not self.noexcept_of(f)

    def find_ctor(self, canon, ptypes):
        want = [self.tm.canon(p) for p in ptypes]
        for f in self.ctor_index.get(canon, []):
            ps = [self.tm.canon_of(c['type']) for c in f.node.get('inner', []) if c.get('kind') == 'ParmVarDecl']
            if ps == want:
                return f
        return None

    def needs_out(self, canon):
        """class prvalues that own elements are returned through a hidden out-parameter (constructed in place, as C++ does)"""
        if canon == self.elem:
            return True
        if canon.endswith('&') or canon.endswith('*'):
            return False
        return canon in self.dtor_index and not canon.startswith('std::')

    def find_dtor_ct(self, ct):
        for canon, tag in self.tm.struct_tags.items():
            if 'struct ' + tag == ct:
                return self.dtor_index.get(canon)
        return None

    def lower(self, f):
        if f.text is not None or f.error is not None:
            return
        f.busy = True
        try:
            self.tm.context_record = f.record
            em = FnEmitter(self, f)
            em.emit()
        except Unsupported as e:
            f.error = str(e)
        except (KeyError, IndexError, TypeError, AttributeError) as e:
            import traceback
            f.error = 'internal: %r %s' % (e, traceback.format_exc().splitlines()[-3:])
        f.busy = False
        self.tm.context_record = None
        if f.error is None:
            self.done.append(f)

    def lower_roots(self, roots):
        for f in roots:
            self.request(f)
        while self.worklist:
            f = self.worklist.pop()
            self.lower(f)
        # a function whose callee failed is itself unusable
        changed = True
        while changed:
            changed = False
            for f in list(self.done):
                for c in f.callees:
                    g = self.by_cname.get(c)
                    if g is not None and g.error and not f.error:
                        f.error = 'callee %s: %s' % (c, g.error)
                        self.done.remove(f)
                        changed = True
                        break

    # ---- structs -------------------------------------------------------------------------------------------------
    SYNTH = {
        'GhostCmp': ['int token;'], 'GhostCmp2': ['int token;'],
    }

    def struct_def(self, canon):
        tag = self.tm.struct_tags[canon]
        rec = self.records.get(canon)
        lines = []
        deps = []
        if rec is None:
            m = re.match(r'^std::pair<(.*)>$', canon)
            if m:
                a, b = split_targs(m.group(1))
                lines = ['%s first;' % self.tm.ctype(a), '%s second;' % self.tm.ctype(b)]
            elif re.match(r'^std::(reverse|move)_iterator<(.*)>$', canon):
                inner = re.match(r'^std::\w+<(.*)>$', canon).group(1)
                lines = ['%s current;' % self.tm.ctype(inner)]
            elif re.match(r'^std::initializer_list<(.*)>$', canon):
                inner = re.match(r'^std::\w+<(.*)>$', canon).group(1)
                lines = ['%s *_M_array;' % self.tm.ctype(inner), 'uint64_t _M_len;']
            elif re.match(r'^std::optional<(.*)>$', canon):
                inner = re.match(r'^std::\w+<(.*)>$', canon).group(1)
                lines = ['_Bool _engaged;', '%s _val;' % self.tm.ctype(inner)]
            elif canon == 'std::nullopt_t':
                lines = ['char _empty;']
            elif re.match(r'^std::tuple<(.*)>$', canon):
                parts = split_targs(re.match(r'^std::tuple<(.*)>$', canon).group(1))
                lines = ['%s _%d;' % (self.tm.ctype(pt), i) for i, pt in enumerate(parts)]
            elif canon in self.SYNTH:
                lines = list(self.SYNTH[canon])
            elif re.match(r'^GhostStdAlloc<.*>$', canon):
                lines = ['char _empty;']
            else:
                raise Unsupported('no definition for struct ' + canon)
        else:
            for i, b in enumerate(rec.get('bases', [])):
                bct = self.tm.ctype_of(b['type'])
                lines.append('%s _base%d;' % (bct, i))
                deps.append(bct)
            for fd in [c for c in rec.get('inner', []) if c.get('kind') == 'FieldDecl']:
                canon_f = self.tm.canon_of(fd['type'])
                m = re.match(r'^(.*)\[(\d+)\]$', canon_f)
                if m:
                    fct = self.tm.ctype(m.group(1))
                    lines.append('%s %s[%s];' % (fct, fd['name'], m.group(2) if int(m.group(2)) > 0 else '1'))
                else:
                    fct = self.tm.ctype(canon_f)
                    lines.append('%s %s;' % (fct, fd['name']))
                if fct.startswith('struct ') and not fct.rstrip().endswith('*'):
                    deps.append(fct)
            if not lines:
                lines = ['char _empty;']
        for l in lines:
            m = re.match(r'^(struct \w+) \w', l)
            if m and m.group(1) not in deps:
                deps.append(m.group(1))
        return tag, lines, deps

    def emit_structs(self):
        out = []
        emitted = set()
        defs = {}
        i = 0
        while i < len(self.tm.need_structs):     # the list may grow while we define
            canon = self.tm.need_structs[i]
            i += 1
            try:
                defs[canon] = self.struct_def(canon)
            except Unsupported as e:
                defs[canon] = (self.tm.struct_tags[canon], None, [])
        bytag = {'struct ' + v[0]: k for k, v in defs.items()}
        # a struct with a by-value member of undefined type is itself left undefined
        changed = True
        while changed:
            changed = False
            for canon, (tag, lines, deps) in list(defs.items()):
                if lines is None:
                    continue
                for d in deps:
                    if d not in bytag or defs[bytag[d]][1] is None:
                        if any(re.match(r'^%s \w' % re.escape(d), l) for l in lines):
                            defs[canon] = (tag, None, deps); changed = True; break
        def visit(canon, stack=()):
            tag, lines, deps = defs[canon]
            if tag in emitted:
                return
            emitted.add(tag)
            for d in deps:
                if d in bytag and bytag[d] != canon:
                    visit(bytag[d])
            if lines is None:
                out.append('struct %s; /* no definition available: %s */' % (tag, canon))
                out.append('#define L0_SLOT_OK_%s(off) ((off) %% ESZ == 0)' % tag)
            else:
                out.append('struct %s { /* %s */\n  %s\n};\n#define HAVE_%s 1' % (tag, canon, '\n  '.join(lines), tag))
                # element slots of an object of this type: where the tracked cell may lie when such an object is a local
                terms = []
                for l in lines:
                    mm = re.match(r'^(struct (\w+)|E|uint8_t|char)\s+(\w+)(\[(\d+)\])*;', l.strip())
                    if not mm:
                        continue
                    mty, mtag, mname = mm.group(1), mm.group(2), mm.group(3)
                    dims = re.findall(r'\[(\d+)\]', l)
                    at = '(base + __builtin_offsetof(struct %s, %s))' % (tag, mname)
                    if mty == 'E' and not dims:
                        terms.append('off == %s' % at)
                    elif mty in ('E', 'uint8_t', 'char') and dims:
                        terms.append('(off >= %s && off < %s + sizeof(((struct %s *)0)->%s) && (off - %s) %% ESZ == 0)' % (at, at, tag, mname, at))
                    elif mtag is not None and not dims and mtag in emitted:
                        terms.append('l0_slot_ok_%s(%s, off)' % (mtag, at))
                out.append('static inline _Bool l0_slot_ok_%s(uint64_t base, uint64_t off) { (void)base; (void)off; return %s; }' % (tag, ' || '.join(terms) if terms else '0'))
                out.append('#define L0_SLOT_OK_%s(off) l0_slot_ok_%s(0, off)' % (tag, tag))
        for canon in list(defs):
            visit(canon)
        return '\n'.join(out)

    def output(self, only=None):
        funcs = [f for f in self.done if f.error is None]
        funcs.sort(key=lambda f: f.cname)
        # structs are collected while lowering; define them first
        protos = '\n'.join('/*@PROTO %s@*/ %s;' % (f.cname, f.proto) for f in funcs)
        bodies = '\n\n'.join('/*@FN %s@*/\n%s\n/*@ENDFN@*/' % (f.cname, f.text) for f in funcs)
        structs = self.emit_structs()
        # L0 primitives: alias signature-suffixed names to the generic implementation; unknown primitive = stop
        l0dir = os.path.join(os.path.dirname(os.path.dirname(os.path.abspath(__file__))), 'ghost')
        known = set()
        for h in ('l0.h', 'l0_post.h', 'l0_sets.h', 'l0_aset.h', 'l0c.h', 'l0c_post.h'):
            hp = os.path.join(l0dir, h)
            if os.path.exists(hp):
                known |= set(re.findall(r'^static inline [^\n(]*?\b(L0_\w+)\s*\(', open(hp).read(), re.M))
                known |= set(re.findall(r'^#define (L0_\w+)', open(hp).read(), re.M))
        aliases = []
        self.unknown_l0 = {}
        for f in funcs:
            for prim in sorted(f.l0):
                if prim in known:
                    continue
                parts = prim.split('__')
                base = None
                # std::equal / std::lexicographical_compare called with a predicate object: not the element's own operator
                if len(parts) >= 2 and parts[0] in ('L0_equal', 'L0_lexicographical_compare') and not re.fullmatch(r'(pE_?)+', '__'.join(parts[1:])) and (parts[0] + '_pred') in known:
                    base = parts[0] + '_pred'
                # an algorithm fed by move iterators has its own primitive (moves instead of copies), whatever the count type
                if len(parts) == 2 and parts[1].startswith('move_iterator_pE_') and (parts[0] + '__move_iterator_pE') in known:
                    base = parts[0] + '__move_iterator_pE'
                for cut in range(len(parts) - 1, 0, -1):
                    if base is not None:
                        break
                    if '__'.join(parts[:cut]) in known:
                        base = '__'.join(parts[:cut]); break
                if base in known:
                    a = '#define %s %s' % (prim, base)
                    if a not in aliases:
                        aliases.append(a)
                else:
                    self.unknown_l0.setdefault(prim, []).append(f.cname)
        hdr = '#include "l0.h"\n'
        return (hdr + structs + '\n#include "l0_post.h"\n' + '\n'.join(aliases) + '\n\n' + protos + '\n\n' + bodies + '\n')


def build_facts(L, elem, workdir, std='c++17', defs=('-DAMC_NONSTD_FEATURES', '-DNDEBUG'), driver_inc='/verif/driver', repo_inc='/repo/include'):
    """evaluate, with the real compiler and the real headers, every computed noexcept specification and the element facts"""
    import subprocess
    exprs = set()
    for f in L.funcs.values():
        ne = _noexcept_expr(f.node['type']['qualType'])
        if isinstance(ne, str) and not any(o in ne for o in L.tm.other_elems):
            exprs.add(ne)
    exprs = sorted(exprs)
    src = ['#include "ghost_types.hpp"', '#include <amc/vector.hpp>', '#include <amc/smallvector.hpp>',
           '#include <amc/fixedcapacityvector.hpp>', '#include <amc/flatset.hpp>',
           '#if __cplusplus >= 201703L', '#include <amc/smallset.hpp>', '#endif', '#include <cstdio>',
           'namespace amc { namespace vec { void facts() {']
    for i, ex in enumerate(exprs):
        src.append('  std::printf("N\\t%d\\t%%d\\n", (int)(%s));' % (i, ex))
    E = elem
    for key, ex in [('sizeof', 'sizeof(%s)' % E), ('alignof', 'alignof(%s)' % E),
                    ('trivially_copyable', 'std::is_trivially_copyable<%s>::value' % E),
                    ('trivially_relocatable', 'amc::is_trivially_relocatable<%s>::value' % E),
                    ('nothrow_move_construct', 'std::is_nothrow_move_constructible<%s>::value' % E),
                    ('nothrow_move_assign', 'std::is_nothrow_move_assignable<%s>::value' % E),
                    ('nothrow_copy_construct', 'std::is_nothrow_copy_constructible<%s>::value' % E),
                    ('trivially_destructible', 'std::is_trivially_destructible<%s>::value' % E),
                    ('trivial', 'std::is_trivial<%s>::value' % E),
                    ('kNbSlots', 'ElemWithPtrStorage<%s>::kNbSlots' % E),
                    ('can_reallocate_amc', 'CanReallocate<amc::allocator<%s> >::value' % E)]:
        src.append('  std::printf("F\\t%s\\t%%ld\\n", (long)(%s));' % (key, ex))
    src.append('} } }')
    src.append('int main() { amc::vec::facts(); return 0; }')
    os.makedirs(workdir, exist_ok=True)
    cpp = os.path.join(workdir, 'facts_%s.cpp' % elem)
    exe = os.path.join(workdir, 'facts_%s' % elem)
    dropped = []
    for attempt in range(8):
        open(cpp, 'w').write('\n'.join(src) + '\n')
        r = subprocess.run(['g++', '-std=' + std] + list(defs) + ['-I' + repo_inc, '-I' + driver_inc, '-w', '-c', cpp, '-o', exe + '.o'],
                           capture_output=True, text=True)
        if r.returncode == 0:
            break
        # an expression that does not compile in this context makes its function 'potentially throwing' (conservative)
        bad = sorted({int(m.group(1)) for m in re.finditer(re.escape(cpp) + r':(\d+):', r.stderr)}, reverse=True)
        bad = [b for b in bad if 0 < b <= len(src) and src[b - 1].lstrip().startswith('std::printf("N')]
        if not bad:
            raise SystemExit('facts program does not compile:\n' + r.stderr[:3000])
        for b in bad:
            dropped.append(src[b - 1]); src[b - 1] = ''
    else:
        raise SystemExit('facts program does not compile:\n' + r.stderr[:3000])
    # ghost types are declarations only: link with no references (traits only) -- use -c + a second TU-free link
    r = subprocess.run(['g++', exe + '.o', '-o', exe], capture_output=True, text=True)
    if r.returncode != 0:
        raise SystemExit('facts program does not link:\n' + r.stderr[:3000])
    out = subprocess.run([exe], capture_output=True, text=True).stdout
    facts = {'noexcept': {}, 'elem': elem, 'noexcept_not_evaluated': len(dropped)}
    for line in out.splitlines():
        t = line.split('\t')
        if t[0] == 'N':
            facts['noexcept'][exprs[int(t[1])]] = int(t[2])
        elif t[0] == 'F':
            facts[t[1]] = int(t[2])
    return facts


def select_roots(L, patterns):
    roots = []
    for cname, f in L.by_cname.items():
        if any(re.fullmatch(p, cname) for p in patterns):
            roots.append(f)
    return roots


def main():
    import argparse
    ap = argparse.ArgumentParser()
    ap.add_argument('ast')
    ap.add_argument('--elem', required=True)
    ap.add_argument('--other', default='')
    ap.add_argument('--facts')
    ap.add_argument('--facts-build', help='directory in which the facts program is generated, compiled and run')
    ap.add_argument('--std', default='c++17')
    ap.add_argument('--defs', default='-DAMC_NONSTD_FEATURES,-DNDEBUG')
    ap.add_argument('--roots', default='.*', help='regex (fullmatch) on lowered names, comma separated')
    ap.add_argument('-o', '--out', required=True)
    ap.add_argument('--report')
    args = ap.parse_args()
    facts = json.load(open(args.facts)) if args.facts else {}
    a = AST(args.ast)
    L = LoweringDriver(a, args.elem, [x for x in args.other.split(',') if x], facts)
    if args.facts_build:
        facts = build_facts(L, args.elem, args.facts_build, args.std, [d for d in args.defs.split(',') if d])
        L.facts = facts
        json.dump(facts, open(os.path.join(args.facts_build, 'facts_%s.json' % args.elem), 'w'), indent=1, sort_keys=True)
    roots = select_roots(L, args.roots.split(','))
    # skip instantiations for other element types
    L.lower_roots(roots)
    open(args.out, 'w').write(L.output())
    rep = {'lowered': {}, 'failed': {}, 'missing_facts': sorted(L.missing_facts)}
    for f in L.funcs.values():
        if f.cname is None:
            continue
        if f.text is not None and f.error is None:
            rep['lowered'][f.cname] = {'callees': sorted(f.callees), 'l0': sorted(f.l0), 'noexcept': f.noexcept,
                                       'loops': getattr(f, 'nloops', 0), 'proto': f.proto, 'qual': f.qual, 'file': a.file_of.get(f.node['id']),
                                       'line': a.line_of.get(f.node['id']),
                                       'mangled': f.node.get('mangledName'),
                                       'sha256': hashlib.sha256(f.text.encode()).hexdigest()}
        elif f.error:
            rep['failed'][f.cname] = f.error
    if args.report:
        json.dump(rep, open(args.report, 'w'), indent=1, sort_keys=True)
    rep['unknown_l0'] = getattr(L, 'unknown_l0', {})
    if args.report:
        json.dump(rep, open(args.report, 'w'), indent=1, sort_keys=True)
    print('lowered %d, failed %d, unknown L0 primitives %d' % (len(rep['lowered']), len(rep['failed']), len(rep['unknown_l0'])))
    for k, v in rep['unknown_l0'].items():
        print('  unknown L0:', k, 'used by', v[:3])

if __name__ == '__main__':
    main()
