"""Extraction, contract splicing, dfcc/CBMC invocation and result parsing for /verif/check."""
import os, sys, re, json, hashlib, subprocess, time, glob, shutil

VERIF = os.path.dirname(os.path.dirname(os.path.abspath(__file__)))
REPO = os.environ.get('AMC_REPO', '/repo')
BUILD = os.path.join(VERIF, 'build')
CACHE = os.path.join(BUILD, 'cache')
TOOLS = os.path.join(VERIF, 'tools')
GHOST = os.path.join(VERIF, 'ghost')

class Infra(Exception):
    """undecided / infrastructure problem: exit code 2, never a violation"""

def sha(*parts):
    h = hashlib.sha256()
    for p in parts:
        h.update(p if isinstance(p, bytes) else str(p).encode())
        h.update(b'\0')
    return h.hexdigest()

def run(cmd, timeout=600, mem_gb=12, cwd=None, stdin=None):
    pre = 'ulimit -v %d; ' % (mem_gb * 1024 * 1024)
    t0 = time.time()
    try:
        r = subprocess.run(['bash', '-c', pre + 'exec "$@"', 'x'] + cmd, capture_output=True, text=True, timeout=timeout, cwd=cwd)
        return r.returncode, r.stdout, r.stderr, time.time() - t0
    except subprocess.TimeoutExpired as e:
        return -9, (e.stdout or b'').decode() if isinstance(e.stdout, bytes) else (e.stdout or ''), 'TIMEOUT', time.time() - t0

# ---------------------------------------------------------------------------------------------------------- configurations
ELEMS = ['ElemNR', 'ElemTR', 'ElemTC']
CFGS = {
    # name: (driver, std, defs)
    'main17': ('inst_main.cpp', 'c++17', ['-DAMC_NONSTD_FEATURES', '-DNDEBUG']),
    'main14dbg': ('inst_main.cpp', 'c++14', []),                 # C++14, standard API only, assertions enabled
    'main11dbg': ('inst_main.cpp', 'c++11', []),                 # C++11 (pre-C++14 branches: exchange, swap_sizetype ...), assertions enabled
    'main20': ('inst_main.cpp', 'c++20', ['-DAMC_NONSTD_FEATURES', '-DNDEBUG']),
    'sets17': ('inst_sets.cpp', 'c++17', ['-DAMC_NONSTD_FEATURES', '-DNDEBUG']),
}

def repo_fingerprint():
    h = hashlib.sha256()
    for f in sorted(glob.glob(os.path.join(REPO, 'include', 'amc', '*.hpp'))):
        h.update(f.encode()); h.update(open(f, 'rb').read())
    for f in sorted(glob.glob(os.path.join(VERIF, 'driver', '*'))) + [os.path.join(TOOLS, t) for t in ('astload.py', 'ctypes_map.py', 'cxx2c.py')] + sorted(glob.glob(os.path.join(GHOST, 'l0*.h'))):
        h.update(f.encode()); h.update(open(f, 'rb').read())
    return h.hexdigest()

def extract(cfg, elem, log):
    """clang AST of the real headers -> cxx2c -> lowered C.  Cached by content hash of headers+driver+tools."""
    driver, std, defs = CFGS[cfg]
    key = sha(repo_fingerprint(), cfg, elem, std, *defs)[:20]
    d = os.path.join(CACHE, 'x_' + key)
    low = os.path.join(d, 'lowered.c')
    rep = os.path.join(d, 'report.json')
    if os.path.exists(low) and os.path.exists(rep) and os.path.exists(os.path.join(d, 'facts_%s.json' % elem)):
        return d
    os.makedirs(d, exist_ok=True)
    astd = os.path.join(CACHE, 'ast_' + sha(repo_fingerprint(), cfg)[:20])
    astf = os.path.join(astd, 'ast.json')
    if not os.path.exists(astf):
        os.makedirs(astd, exist_ok=True)
        cmd = ['clang++', '-std=' + std] + defs + ['-I' + os.path.join(REPO, 'include'), '-I' + os.path.join(VERIF, 'driver'),
               '-fsyntax-only', '-Xclang', '-ast-dump=json', '-Xclang', '-ast-dump-filter=amc::', os.path.join(VERIF, 'driver', driver)]
        t0 = time.time()
        with open(astf + '.tmp', 'w') as out:
            r = subprocess.run(cmd, stdout=out, stderr=subprocess.PIPE, text=True)
        if r.returncode != 0:
            raise Infra('clang cannot parse the driver against the current headers (%s):\n%s' % (cfg, r.stderr[-3000:]))
        os.rename(astf + '.tmp', astf)
        log('extract: clang AST %s %.1fs' % (cfg, time.time() - t0))
    others = ','.join(e for e in ELEMS if e != elem)
    t0 = time.time()
    rc, out, err, dt = run([sys.executable, os.path.join(TOOLS, 'cxx2c.py'), astf, '--elem', elem, '--other', others, '-o', low + '.tmp',
                            '--report', rep, '--facts-build', d, '--std', std, '--defs=' + ','.join(defs)], timeout=900, mem_gb=16)
    if rc != 0:
        raise Infra('cxx2c failed for %s/%s:\n%s\n%s' % (cfg, elem, out[-2000:], err[-3000:]))
    os.rename(low + '.tmp', low)
    log('extract: cxx2c %s/%s %.1fs %s' % (cfg, elem, time.time() - t0, out.strip().splitlines()[-1] if out.strip() else ''))
    return d

# ---------------------------------------------------------------------------------------------------------- specs
class Spec:
    def __init__(self, pattern, path):
        self.pattern = re.compile(pattern)
        self.path = path
        self.props = []
        self.throws = False
        self.opself = 'self'
        self.clauses = []      # (tags, label, text)
        self.loops = {}        # ordinal -> [text]
        self.defs = []         # raw lines '#define ...' to be placed before the unit

def load_specs():
    specs = []
    for path in sorted(glob.glob(os.path.join(VERIF, 'contracts', '*.spec'))):
        cur = None
        loop = None
        pending = None
        for raw in open(path):
            line = raw.rstrip('\n')
            if line.startswith('#function '):
                cur = Spec(line[len('#function '):].strip(), path)
                specs.append(cur); loop = None; pending = None
            elif cur is None:
                continue
            elif line.startswith('#props '):
                cur.props = line.split()[1:]
            elif line.startswith('#throws'):
                cur.throws = True
            elif line.startswith('#opself '):
                cur.opself = line[len('#opself '):].strip()
            elif line.startswith('#loop '):
                loop = int(line.split()[1]); cur.loops[loop] = []
            elif line.startswith('#end'):
                loop = None
            elif line.startswith('//:'):
                t = line[3:].strip().split(' ')
                tags = [x for x in t if re.fullmatch(r'C\d\d', x)]
                pending = (tags, ' '.join(x for x in t if x not in tags))
            elif line.strip().startswith('//') or not line.strip():
                continue
            elif line.startswith('@POST2('):
                x = line[line.index('(') + 1:line.rindex(')')]
                for macro, tg, lab in [('W_WORDS_OK', ['C01', 'C05', 'C07', 'C13'], 'size/capacity words of %s are a reachable encoding' % x),
                                       ('W_CELL_OK', ['C02', 'C09', 'C13'], 'every slot of %s below size is alive, every slot above is raw' % x),
                                       ('W_TOK_OK', ['C02', 'C13'], 'no tracked element of %s sits in a raw slot' % x),
                                       ('W_BLK_OK', ['C06', 'C13'], 'the heap buffer of %s is an outstanding block of exactly capacity elements' % x)]:
                    cur.clauses.append((tg, lab, '__CPROVER_ensures(%s(%s))' % (macro, x)))
                pending = None
            elif line.startswith('@POST(') or line.startswith('@POST_EXC('):
                x = line[line.index('(') + 1:line.rindex(')')]
                guard = '' if line.startswith('@POST(') else 'l0_exc == 0 || '
                for macro, tg, lab in [('V_WORDS_OK', ['C01', 'C05', 'C07'], 'size/capacity words of %s are a reachable encoding' % x),
                                       ('V_CELL_OK', ['C02', 'C09'], 'every slot of %s below size is alive, every slot above is raw' % x),
                                       ('V_TOK_OK', ['C02'], 'no tracked element of %s sits in a raw slot' % x),
                                       ('V_BLK_OK', ['C06'], 'the heap buffer of %s is an outstanding block of exactly capacity elements' % x)]:
                    cur.clauses.append((tg, lab, '__CPROVER_ensures(%s(%s))' % (macro, x)))
                pending = None
            elif line.startswith('@POST_OK('):
                x = line[line.index('(') + 1:line.rindex(')')]
                for macro, tg, lab in [('V_WORDS_OK', ['C01', 'C05', 'C07'], 'size/capacity words of %s are a reachable encoding' % x),
                                       ('V_CELL_OK', ['C02', 'C09'], 'every slot of %s below size is alive, every slot above is raw' % x),
                                       ('V_TOK_OK', ['C02'], 'no tracked element of %s sits in a raw slot' % x),
                                       ('V_BLK_OK', ['C06'], 'the heap buffer of %s is an outstanding block of exactly capacity elements' % x)]:
                    cur.clauses.append((tg, lab + ' (when the call returns normally)', '__CPROVER_ensures(l0_exc != 0 || %s(%s))' % (macro, x)))
                pending = None
            elif line.startswith('@CTOR('):
                x = line[line.index('(') + 1:line.rindex(')')]
                for tg, lab, txt in [
                    (['C08'], 'construction raises a capacity-limit error exactly when the requested size exceeds the limit (N, or the maximum of the size_type)',
                     '__CPROVER_ensures(((uint64_t)(%s) > V_LIMIT) == (l0_exc == V_LIMIT_EXC))' % x),
                    (['C09', 'C02', 'C06'], 'a constructor that throws leaves nothing behind: every element it created is destroyed, every block it obtained is handed back',
                     '__CPROVER_ensures(l0_exc == 0 || V_CTOR_FAILED(self))'),
                    (['C01'], 'the constructed vector has the requested size', '__CPROVER_ensures(l0_exc != 0 || V_SIZE(self) == (uint64_t)(%s))' % x),
                    (['C05'], 'a vector constructed with at most N elements is inline and makes no allocator request',
                     '__CPROVER_ensures(l0_exc != 0 || (uint64_t)(%s) > V_EMPTY_CAPA || (!V_HEAP(self) && V_CAPA(self) == V_EMPTY_CAPA && g_nalloc == pre_g.nalloc && g_nrealloc == pre_g.nrealloc && g_ndealloc == pre_g.ndealloc))' % x),
                    (['C18', 'C06', 'C07'], 'a larger one makes exactly one allocator request, capacity at least max(1.5*N, needed) (clamped to the size_type)',
                     '__CPROVER_ensures(l0_exc != 0 || !V_DYNAMIC || (uint64_t)(%s) <= V_EMPTY_CAPA || (V_GREW_ONCE && g_ndealloc == pre_g.ndealloc && V_CAPA(self) >= GROW_SPEC(V_EMPTY_CAPA, %s)))' % (x, x)),
                    (['C09', 'C08'], 'only the documented exception kinds', '__CPROVER_ensures(V_EXC_KINDS)')]:
                    cur.clauses.append((tg, lab, txt))
                pending = None
            elif line.startswith('@GROW(') or line.startswith('@GROW_E('):
                x = line[line.index('(') + 1:line.rindex(')')]
                first = ('__CPROVER_ensures(((uint64_t)(%s) > V_LIMIT) == (l0_exc == V_LIMIT_EXC))' % x) if line.startswith('@GROW(') else \
                        ('__CPROVER_ensures((l0_exc != V_LIMIT_EXC || (uint64_t)(%s) > V_LIMIT) && ((uint64_t)(%s) <= V_LIMIT || l0_exc == V_LIMIT_EXC || l0_exc == L0_EXC_ELEM))' % (x, x))
                for tg, lab, txt in [
                    (['C08'], 'a capacity-limit error is raised exactly when the resulting size exceeds the limit (N, or the maximum of the size_type)', first),
                    (['C08'], 'after a capacity-limit error contents, size, capacity, storage and all counters are exactly as before',
                     '__CPROVER_ensures(l0_exc != V_LIMIT_EXC || V_UNTOUCHED)' if line.startswith('@GROW(') else '__CPROVER_ensures(l0_exc != V_LIMIT_EXC || V_UNTOUCHED_BUT_TEMP)'),
                    (['C07'], 'no reallocation when the result fits the capacity', '__CPROVER_ensures((uint64_t)(%s) > pre_self.capa || V_NO_REALLOC)' % x),
                    (['C07'], 'capacity never decreases and size <= capacity <= max_size', '__CPROVER_ensures(V_CAPA(OPSELF) >= pre_self.capa && V_SIZE(OPSELF) <= V_CAPA(OPSELF) && V_CAPA(OPSELF) <= V_LIMIT)'),
                    (['C18', 'C06'], 'growth is geometric: exactly one allocator request, capacity at least max(1.5*old, needed) (clamped to the size_type)',
                     '__CPROVER_ensures(!(l0_exc == 0 && V_DYNAMIC && (uint64_t)(%s) > pre_self.capa) || (V_GREW_ONCE && V_CAPA(OPSELF) >= GROW_SPEC(pre_self.capa, %s)))' % (x, x)),
                    (['C05'], 'an inline vector whose size stays within N stays inline and makes no allocator request',
                     '__CPROVER_ensures(!(V_INLINE_PRE && (uint64_t)(%s) <= g_N) || (!V_HEAP(OPSELF) && g_nalloc == pre_g.nalloc && g_nrealloc == pre_g.nrealloc))' % x),
                    (['C09', 'C08'], 'only the documented exception kinds', '__CPROVER_ensures(V_EXC_KINDS)')]:
                    cur.clauses.append((tg, lab, txt))
                pending = None
            elif loop is not None:
                cur.loops[loop].append(line)
            else:
                cur.clauses.append((pending[0] if pending else cur.props, pending[1] if pending else '', line))
                pending = None
    return specs

def find_spec(specs, cname):
    hits = [s for s in specs if s.pattern.fullmatch(cname)]
    if not hits:
        return None, None
    if len(hits) > 1:
        raise Infra('more than one spec matches %s: %s' % (cname, [h.path for h in hits]))
    return hits[0], hits[0].pattern.fullmatch(cname)

def splice(lowered_text, specs, cnames, subst):
    """insert the contract clauses of the listed functions; returns (text, clause_map {line -> (cname, tags, label, text)})"""
    out_lines = []
    clause_map = {}
    ordinals = {}       # (fn, 'ensures'|'requires', k) -> clause
    fnprops = {}
    fn = None
    want = set(cnames)
    found = set()
    loop_owner = None
    # compiler-generated temporaries of each function (named tmpN by the lowering): '@TMPS' in a loop assigns clause stands for all of
    # them, so that a loop contract does not depend on how many temporaries the lowering happens to need
    fn_tmps = {}
    for mfn in re.finditer(r'/\*@FN (\w+)@\*/(.*?)/\*@ENDFN@\*/', lowered_text, re.S):
        fn_tmps[mfn.group(1)] = sorted(set(re.findall(r'^\s+[\w \*]+?\b(tmp\d+);', mfn.group(2), re.M)), key=lambda t: int(t[3:]))
    for line in lowered_text.split('\n'):
        m = re.match(r'^/\*@CONTRACT (\w+)@\*/$', line)
        if m:
            fn = m.group(1)
            if fn in want:
                spec, mm = find_spec(specs, fn)
                if spec is None:
                    raise Infra('no spec for function %s' % fn)
                found.add(fn)
                out_lines.append('#undef OPSELF')
                out_lines.append('#define OPSELF %s' % spec.opself)
                # memory-shape predicate: freshness for the function under proof (assumed, allocates), validity for a replaced callee
                # (asserted at the call site, where the operand may be a sub-object of the caller's operand)
                out_lines.append('#undef V_FRESH')
                out_lines.append('#define V_FRESH(p, n) %s' % ('__CPROVER_is_fresh(p, n)' if fn == cnames[0] else '__CPROVER_rw_ok(p, n)'))
                for tags, label, text in spec.clauses:
                    for k, v in subst.items():
                        text = text.replace(k, v)
                    out_lines.append(text)
                    clause_map[len(out_lines)] = (fn, tags, label, text)
                    for kind in ('ensures', 'requires'):
                        if text.lstrip().startswith('__CPROVER_' + kind):
                            k = 1 + len([1 for key in ordinals if key[0] == fn and key[1] == kind])
                            ordinals[(fn, kind, k)] = (fn, tags, label, text)
                if fn == cnames[0]:
                    out_lines.append('__CPROVER_requires(CASE_PRED)')
                extra = []
                if fn == cnames[0]:     # only the function under proof gets the reachability guards (not the replaced callees)
                    extra = [('__CPROVER_ensures(VAC_NORMAL || l0_exc != 0)', 'vacuity guard: normal exit reachable')]
                if spec.throws and fn == cnames[0]:
                    extra.append(('__CPROVER_ensures(VAC_EXC || l0_exc == 0)', 'vacuity guard: exceptional exit reachable'))
                for text, label in extra:
                    out_lines.append(text)
                    clause_map[len(out_lines)] = (fn, ['VAC'], label, '')
                    k = 1 + len([1 for key in ordinals if key[0] == fn and key[1] == 'ensures'])
                    ordinals[(fn, 'ensures', k)] = (fn, ['VAC'], label, '')
            else:
                out_lines.append('')
            continue
        m = re.match(r'^/\*@LOOP (\d+)@\*/$', line)
        if m:
            # loop contracts are written relative to the loop entry (__CPROVER_loop_entry), hence valid in every calling
            # context: they are spliced into every function of the unit that has them, target or inlined callee
            spec, mm = find_spec(specs, fn) if fn else (None, None)
            body = spec.loops.get(int(m.group(1))) if spec is not None else None
            if body is None:
                out_lines.append('')      # loop without contract: the unwinding assertion will flag it (undecided)
            else:
                for text in body:
                    for k, v in subst.items():
                        text = text.replace(k, v)
                    if '@TMPS' in text:
                        tl = fn_tmps.get(fn, [])
                        text = text.replace(', @TMPS', ''.join(', ' + t for t in tl)).replace('@TMPS', ', '.join(tl))
                    out_lines.append(text)
                    clause_map[len(out_lines)] = (fn, spec.props, 'loop contract', text)
                fnprops[fn] = spec.props
            continue
        out_lines.append(line)
    missing = want - found
    if missing:
        raise Infra('functions not present in the lowered code (renamed or no longer instantiated): %s' % sorted(missing))
    clause_map['ordinals'] = ordinals
    clause_map['fnprops'] = fnprops
    return '\n'.join(out_lines), clause_map

# ---------------------------------------------------------------------------------------------------------- units
CBMC_FLAGS = ['--sat-solver', 'cadical', '--bounds-check', '--pointer-check', '--conversion-check', '--signed-overflow-check',
              '--div-by-zero-check', '--unwind', '1', '--unwindset', '__CPROVER_contracts_write_set_check_assigns_clause_inclusion.0:80', '--unwinding-assertions', '--json-ui', '--object-bits', '10']

def proto_params(proto):
    m = re.match(r'^(.*?)\b(\w+)\((.*)\)$', proto)
    ret, name, params = m.group(1).strip(), m.group(2), m.group(3)
    ps = []
    if params.strip() != 'void':
        for p in params.split(','):
            p = p.strip()
            mm = re.match(r'^(.*?)(\w+)$', p)
            ps.append((mm.group(1).strip(), mm.group(2)))
    return ret, name, ps

def build_unit_text(unit, xdir, specs, report):
    elem = unit['elem']
    facts = json.load(open(os.path.join(xdir, 'facts_%s.json' % elem)))
    lowered = open(os.path.join(xdir, 'lowered.c')).read()
    target = unit['target']
    fns = [target] + list(unit.get('replace', []))
    extra_src = ''
    if unit.get('extra_source'):
        # a lemma / glue function written in /verif (NOT repository code): listed as such in the evidence
        extra_src = '\n'.join(open(os.path.join(VERIF, f)).read() for f in ([unit['extra_source']] if isinstance(unit['extra_source'], str) else unit['extra_source']))
        report = dict(report); report['lowered'] = dict(report['lowered'])
        report['lowered'][target] = {'callees': list(unit.get('extra_reach', [])), 'l0': [], 'proto': unit['proto']}
    for fn in fns:
        if fn not in report['lowered']:
            why = report['failed'].get(fn, 'not instantiated / renamed')
            raise Infra('function %s is not available in the lowered code: %s' % (fn, why))
    # a more derived class that (now) declares the same member hides the function under contract from every caller that goes
    # through the public type: the registered contract would be checked on code users no longer reach -> undecided, never a silent pass
    if '__' in target:
        member = target.split('__', 1)[1]
        for cls in unit.get('hidden_by', []):
            cand = cls + '__' + member
            if cand != target and (cand in report['lowered'] or cand in report.get('failed', {})):
                raise Infra('%s is hidden by %s, a member the registered contracts do not know: the contract of %s no longer describes what users of the public type call' % (target, cand, target))
    subst = unit.get('subst', {})
    # keep only the functions reachable from the target (and from the replaced callees' prototypes): smaller units, and a
    # change elsewhere in the headers leaves the unit text - hence its cached result - untouched
    reach, todo = set(), [target] + list(unit.get('extra_reach', []))
    while todo:
        fn = todo.pop()
        if fn in reach or fn not in report['lowered']:
            continue
        reach.add(fn)
        if (fn in unit.get('replace', []) or fn in unit.get('stubbed', [])) and fn != target:
            continue
        todo.extend(report['lowered'][fn]['callees'])
    for prim, users in report.get('unknown_l0', {}).items():
        if any(uu in reach for uu in users):
            raise Infra('function %s reaches %s which calls %s: no L0 semantics for it' % (target, [uu for uu in users if uu in reach][:2], prim))
    kept, skipping = [], False
    for line in lowered.split('\n'):
        m = re.match(r'^/\*@PROTO (\w+)@\*/ (.*)$', line)
        if m:
            if m.group(1) in reach:
                kept.append(m.group(2))
            continue
        m = re.match(r'^/\*@FN (\w+)@\*/$', line)
        if m:
            # 'stubbed' callees (bounded stand-ins only): the prototype stays, the body is the callee's specification written in the
            # glue file -- the caller is checked against the callee's contract, which has its own (unbounded) units
            skipping = m.group(1) not in reach or m.group(1) in unit.get('stubbed', [])
            continue
        if line == '/*@ENDFN@*/':
            skipping = False
            continue
        if not skipping:
            kept.append(line)
    lowered = '\n'.join(kept) + '\n' + extra_src
    if unit.get('bounded'):
        # bounded stand-in: concrete L0, no contract instrumentation; the glue function in extra_source builds concrete pre-states,
        # calls the REAL lowered function and asserts the postconditions (loops unwound up to the stated bound)
        text = re.sub(r'/\*@(CONTRACT|LOOP) [^@]*@\*/', '', lowered)
        defs = dict(unit.get('defs', {})); defs['L0_CONCRETE'] = '1'
        head = ['#include <stdint.h>', '#include <stddef.h>'] + ['#define %s %s' % (k, v) for k, v in defs.items()] + ['#include "l0.h"']
        body = '\n'.join(head) + '\n' + text + '\n#include "l0c_globals.c"\nvoid harness(void) { %s(); }\n' % target
        cflags = ['-DESZ=%d' % facts['sizeof'], '-DCAT_TC=%d' % facts['trivially_copyable'], '-DCAT_TR=%d' % facts['trivially_relocatable'],
                  '-DCAT_NOTHROW_MOVE=%d' % (1 if facts['nothrow_move_construct'] and facts['nothrow_move_assign'] else 0)]
        return body, {'ordinals': {}, 'fnprops': {}}, cflags
    text, cmap = splice(lowered, specs, fns, subst)
    proto = report['lowered'][target]['proto']
    ret, name, ps = proto_params(proto)
    decls = '\n'.join('  %s %s;' % (t, n) for t, n in ps)
    call = '%s(%s);' % (name, ', '.join(n for t, n in ps))
    defs = dict(unit.get('defs', {}))
    head = ['#include <stdint.h>', '#include <stddef.h>']
    for k, v in defs.items():
        head.append('#define %s %s' % (k, v))
    head.append('#ifdef WITH_SETS\n#define SETS_GHOST_ASSIGNS , g_lb_calls, g_unregistered_read\n#else\n#define SETS_GHOST_ASSIGNS\n#endif')
    head.append('#ifndef VAC_NORMAL\n#define VAC_NORMAL 1\n#endif\n#ifndef VAC_EXC\n#define VAC_EXC 1\n#endif')
    head.append('#ifndef KF_EXCLUDE\n#define KF_EXCLUDE 1\n#endif')
    head.append('#ifndef CASE_PRED\n#define CASE_PRED 1\n#endif')
    head.append('#include "l0.h"')
    head.append('#include "inv.h"')
    if 'WITH_EXT_MEM' in defs:
        head.append('#include "ext_mem.h"')
    if 'WITH_EXT_CMP' in defs:
        head.append('#include "ext_cmp.h"')
    head.append('uint64_t g_N, g_N2; struct vsnap pre_self, pre_o; struct gsnap pre_g; _Bool g_alias; uint64_t g_src, g_pos, g_pos2, g_cnt; E *pre_p1, *pre_p2; void *g_other; int g_int0;')
    nhead = sum(h.count('\n') + 1 for h in head)
    body = '\n'.join(head) + '\n' + text + '\n#include "l0_globals.c"\n' + 'void harness(void) {\n%s\n  l0_havoc();\n  %s\n}\n' % (decls, call)
    cmap2 = {ln + nhead: v for ln, v in cmap.items() if ln not in ('ordinals', 'fnprops')}
    cmap2['ordinals'] = cmap['ordinals']
    cmap2['fnprops'] = cmap['fnprops']
    cflags = ['-DESZ=%d' % facts['sizeof'], '-DCAT_TC=%d' % facts['trivially_copyable'], '-DCAT_TR=%d' % facts['trivially_relocatable'],
              '-DCAT_NOTHROW_MOVE=%d' % (1 if facts['nothrow_move_construct'] and facts['nothrow_move_assign'] else 0)]
    return body, cmap2, cflags

def run_static_facts(unit, variant, timeout):
    """type-level facts evaluated by the real compiler on the real headers (trait values ...): each printed line
    '<name> <claimed> <expected>' becomes one assertion of a C unit that the verifier discharges"""
    src = os.path.join(VERIF, unit['static_facts'])
    key = sha(open(src).read(), repo_fingerprint(), variant, 'static-v2')[:24]
    udir = os.path.join(CACHE, 'u_' + key)
    resf = os.path.join(udir, 'result.json')
    if os.path.exists(resf):
        r = json.load(open(resf)); r['cached'] = True
        return r
    os.makedirs(udir, exist_ok=True)
    t0 = time.time()
    res = {'unit': unit['id'], 'variant': variant, 'dir': udir, 'cached': False}
    def fail(msg):
        res.update(status='infra', error=msg, seconds=time.time() - t0)
        return res
    body = ['void harness(void) {']
    if src.endswith('.py'):
        # facts read off the compiler's AST of the real headers by a script: TSV lines 'label <TAB> found <TAB> expected'
        rc, out, err, dt = run([sys.executable, src, REPO], timeout=300, mem_gb=8)
        lines = [l.split('\t') for l in out.strip().split('\n') if l.strip()]
        if rc != 0 or not lines or any(len(l) != 3 or not (l[1].isdigit() and l[2].isdigit()) for l in lines):
            return fail('the static facts script failed (rc=%s): %s' % (rc, (out + err)[-1200:]))
        for label, claimed, expected in lines:
            body.append('  __CPROVER_assert(%s == %s, "%s: %s");' % (claimed, expected, ' '.join(unit['props']), label.replace('"', '').replace('\\', '')))
        lines = []
    else:
        rc, out, err, dt = run(['g++', '-std=c++17', '-DAMC_NONSTD_FEATURES', '-I' + os.path.join(REPO, 'include'), src, '-o', os.path.join(udir, 'facts')], timeout=300, mem_gb=8)
        if rc != 0:
            return fail('the static facts program does not compile against the current headers: ' + (out + err)[-1200:])
        rc, out, err, dt = run([os.path.join(udir, 'facts')], timeout=60)
        lines = [l.split() for l in out.strip().split('\n') if l.strip()]
        if rc != 0 or not lines or any(len(l) != 3 for l in lines):
            return fail('the static facts program failed (rc=%s)' % rc)
    for name, claimed, expected in lines:
        body.append('  __CPROVER_assert(%s == %s, "%s: %s claims to be trivially relocatable exactly when its parts are (claimed %s, parts %s)");' % (
            claimed, expected, ' '.join(unit['props']), name.replace('"', ''), claimed, expected))
    if variant.startswith('vacuity'):
        body.append('  __CPROVER_assert(0, "VAC: reachable");')
    body.append('}')
    open(os.path.join(udir, 'unit.c'), 'w').write('\n'.join(body) + '\n')
    rc, out, err, dt = run(['goto-cc', '--function', 'harness', 'unit.c', '-o', 'unit.gb'], cwd=udir, timeout=120)
    if rc != 0:
        return fail('goto-cc: ' + (out + err)[-800:])
    rc, out, err, dt = run(['cbmc', 'unit.gb', '--json-ui'], cwd=udir, timeout=timeout, mem_gb=8)
    return finish_cbmc(unit, udir, res, resf, rc, out, err, timeout, {'ordinals': {}, 'fnprops': {}}, t0)

def run_unit(unit, xdir, specs, report, variant='main', extra_defs=(), log=print, timeout=600):
    """returns dict: {status: ok|infra, obligations: [...], seconds, cached}"""
    if unit.get('static_facts'):
        return run_static_facts(unit, variant, timeout)
    body, cmap, cflags = build_unit_text(unit, xdir, specs, report)
    # only the ghost headers this unit can include enter its cache key
    gfiles = ['l0.h', 'l0_post.h']
    if unit.get('bounded'):
        gfiles += ['l0c.h', 'l0c_post.h', 'l0c_globals.c']
    else:
        gfiles += ['inv.h', 'inv2.h', 'l0_globals.c']
        if 'WITH_SETS' in unit.get('defs', {}):
            gfiles += ['l0_sets.h', 'l0_aset.h', 'inv_sets.h', 'inv_sets_gen.h']
        if 'WITH_EXT_MEM' in unit.get('defs', {}):
            gfiles += ['ext_mem.h']
        if 'WITH_EXT_CMP' in unit.get('defs', {}):
            gfiles += ['ext_cmp.h']
    ghost_fp = sha(*[open(os.path.join(GHOST, f), 'rb').read() for f in gfiles])
    flags = list(cflags) + list(extra_defs)
    key = sha(body, ghost_fp, ' '.join(flags), ' '.join(CBMC_FLAGS), unit['target'], ' '.join(unit.get('replace', [])), variant, str(unit.get('bounded', '')))[:24]
    udir = os.path.join(CACHE, 'u_' + key)
    resf = os.path.join(udir, 'result.json')
    if os.path.exists(resf):
        r = json.load(open(resf)); r['cached'] = True
        return r
    os.makedirs(udir, exist_ok=True)
    open(os.path.join(udir, 'unit.c'), 'w').write(body)
    t0 = time.time()
    res = {'unit': unit['id'], 'variant': variant, 'dir': udir, 'cached': False}
    def fail(msg):
        res.update(status='infra', error=msg, seconds=time.time() - t0)
        return res
    rc, out, err, dt = run(['goto-cc'] + flags + ['-I' + GHOST, '--function', 'harness', 'unit.c', '-o', 'unit.gb'], cwd=udir, timeout=120)
    if rc != 0:
        return fail('goto-cc: ' + (out + err)[-1500:])
    if unit.get('bounded'):
        K = int(unit['bounded'])
        cmdc = ['cbmc', 'unit.gb', '--sat-solver', 'cadical', '--bounds-check', '--pointer-check', '--conversion-check', '--signed-overflow-check', '--div-by-zero-check',
                '--unwind', str(K), '--unwinding-assertions', '--slice-formula', '--json-ui', '--object-bits', '10'] + list(unit.get('cbmc_flags', []))
        rc, out, err, dt = run(cmdc, cwd=udir, timeout=timeout, mem_gb=14)
        return finish_cbmc(unit, udir, res, resf, rc, out, err, timeout, {'ordinals': {}, 'fnprops': {}}, t0)
    cmd = ['goto-instrument', '--dfcc', 'harness', '--enforce-contract', unit['target']]
    for g in unit.get('replace', []):
        cmd += ['--replace-call-with-contract', g]
    if unit.get('loops', True):
        cmd += ['--apply-loop-contracts']
    cmd += ['unit.gb', 'unit2.gb']
    rc, out, err, dt = run(cmd, cwd=udir, timeout=300)
    open(os.path.join(udir, 'dfcc.log'), 'w').write(out + err)
    if rc != 0:
        return fail('goto-instrument: ' + (out + err)[-1500:])
    cmdc = ['cbmc', 'unit2.gb'] + CBMC_FLAGS + list(unit.get('cbmc_flags', []))
    if variant.startswith('vacuity'):
        for key, c in cmap['ordinals'].items():
            if 'VAC' in c[1] and key[1] == 'ensures':
                cmdc += ['--property', '%s.postcondition.%d' % (key[0], key[2])]
    rc, out, err, dt = run(cmdc, cwd=udir, timeout=timeout, mem_gb=14)
    return finish_cbmc(unit, udir, res, resf, rc, out, err, timeout, cmap, t0)

def finish_cbmc(unit, udir, res, resf, rc, out, err, timeout, cmap, t0):
    def fail(msg):
        res.update(status='infra', error=msg, seconds=time.time() - t0)
        return res
    import gzip
    with gzip.open(os.path.join(udir, 'cbmc.json.gz'), 'wt') as gz:
        gz.write(out)
    for tmpf in ('unit.gb', 'unit2.gb'):
        try: os.remove(os.path.join(udir, tmpf))
        except OSError: pass
    if err == 'TIMEOUT':
        return fail('cbmc timeout after %ds' % timeout)
    try:
        j = json.loads(out)
    except Exception:
        return fail('cbmc output not JSON (rc=%s): %s' % (rc, (out + err)[-800:]))
    results = None
    msgs = []
    for item in j:
        if 'result' in item:
            results = item['result']
        if item.get('messageType') in ('ERROR', 'WARNING'):
            msgs.append(item.get('messageText', ''))
    if results is None:
        return fail('cbmc produced no result (rc=%s): %s' % (rc, ' | '.join(msgs)[-1200:]))
    if any(re.search(r'out of memory|VERIFICATION ERROR', m) for m in msgs) or any(r.get('status') == 'ERROR' for r in results):
        return fail('cbmc gave up (rc=%s): %s' % (rc, ' | '.join(m for m in msgs if re.search(r'memory|ERROR|error', m))[-600:]))
    nobody = [r_['property'] for r_ in results if '.no-body.' in r_.get('property', '') and r_.get('status') == 'FAILURE']
    if nobody:
        return fail('a function without body or contract is reached (its result would be arbitrary): %s' % nobody[:3])
    bad = [m for m in msgs if re.search(r'ignoring|no body for function|Parse Error', m)]
    obls = []
    for r in results:
        sl = r.get('sourceLocation', {})
        desc = r.get('description', '')
        line = int(sl.get('line', 0) or 0)
        o = {'name': r['property'], 'desc': desc, 'status': r['status'], 'file': sl.get('file', ''), 'line': line,
             'function': sl.get('function', ''), 'tags': [], 'label': ''}
        tags = re.match(r'^((?:C\d\d ?)+):', desc)
        if desc.startswith('VAC:'):
            o['tags'] = ['VAC']; o['label'] = 'vacuity guard: normal exit reachable'
        elif tags:
            o['tags'] = tags.group(1).split()
        elif 'ensures clause' in desc or 'requires clause' in desc or 'loop invariant' in desc or 'decreases' in desc or '.loop_' in r['property']:
            c = None
            mo = re.match(r'^(\w+)\.(postcondition|precondition)\.(\d+)$', r['property'])
            if mo:
                c = cmap['ordinals'].get((mo.group(1), 'ensures' if mo.group(2) == 'postcondition' else 'requires', int(mo.group(3))))
            ml = re.match(r'^(\w+)\.loop_', r['property'])
            if ml and ml.group(1) in cmap['fnprops']:
                c = (ml.group(1), cmap['fnprops'][ml.group(1)], 'loop contract: ' + desc[:60], '')
            if c is None:
                c = cmap.get(line + 1) or cmap.get(line)
            if c:
                o['tags'] = list(c[1]); o['label'] = c[2] or c[3][:120]; o['clause'] = c[3][:300]
        if r['status'] == 'FAILURE' and 'trace' in r:
            o['trace'] = compact_trace(r['trace'])
        obls.append(o)
    res.update(status='ok', obligations=obls, seconds=time.time() - t0, warnings=bad, cbmc_rc=rc)
    json.dump(res, open(resf, 'w'))
    return res

def compact_trace(trace):
    """keep assignments to harness inputs / ghost state / container words (names and values only)"""
    out = []
    keep = []
    for st in trace:
        if st.get('stepType') == 'assignment' and not st.get('hidden'):
            lhs = st.get('lhs', '')
            v = st.get('value', {})
            val = v.get('data', v.get('name'))
            fn = st.get('sourceLocation', {}).get('function', '')
            if val is not None and not lhs.startswith('__CPROVER') and 'car_' not in lhs and not lhs.startswith('return_value___CPROVER'):
                if re.match(r'^(g_|pre_|l0_exc)', lhs) or fn in ('harness', ''):
                    keep.append([fn, lhs, str(val)[:60]])
                else:
                    out.append([fn, lhs, str(val)[:60]])
    return keep[-600:] + out[-200:]
