#!/usr/bin/env python3
"""debug helper: run one unit and show failing obligations with the interesting trace values"""
import sys, os, json, re
sys.path.insert(0, os.path.dirname(os.path.abspath(__file__)))
import pipeline as P, check
U = check.load_units()
pat = sys.argv[1]
show = sys.argv[2] if len(sys.argv) > 2 else None
specs = P.load_specs()
for u in U.units():
    if not re.search(pat, u['id']):
        continue
    xd = P.extract(u['cfg'], u['elem'], print)
    rep = json.load(open(os.path.join(xd, 'report.json')))
    r = P.run_unit(u, xd, specs, rep, 'main', (), print)
    print('==', u['id'], r['status'], '%.1fs' % r.get('seconds', 0), r.get('error', '')[:1500], r.get('dir'))
    if r['status'] != 'ok':
        continue
    n = len(r['obligations'])
    fails = [o for o in r['obligations'] if o['status'] not in ('SUCCESS', 'UNKNOWN')]
    print('   unknown: %d' % len([o for o in r['obligations'] if o['status'] == 'UNKNOWN']))
    print('   %d obligations, %d failed' % (n, len(fails)))
    for o in fails:
        print('   FAIL', o['name'], '|', o['label'] or o['desc'], '| line', o['line'])
    if show and fails:
        for o in fails:
            if show in o['name'] or show in (o['label'] or o['desc']):
                last = {}
                for fn, lhs, val in o.get('trace', []):
                    last[lhs] = (fn, val)
                for lhs, (fn, val) in last.items():
                    if not re.search(r'^g_|^pre_|^l0_exc', lhs):
                        continue
                    print('      %-40s %-30s %s' % (lhs, val, fn))
                break
