"""Counterexample replay against the real code (native build of /repo/include with instrumented element types)."""
import os, sys, json, time, re, subprocess
VERIF = os.path.dirname(os.path.dirname(os.path.abspath(__file__)))

def make_replay(prop, unit, obl, unit_result, log):
    """write the replay file for a failed obligation; try to reproduce natively. returns (path, reproduced)"""
    os.makedirs(os.path.join(VERIF, 'replays'), exist_ok=True)
    name = re.sub(r'\W+', '_', '%s_%s_%s' % (prop, unit['id'], obl['name']))[:150]
    path = os.path.join(VERIF, 'replays', name + '.json')
    rec = {'property': prop, 'unit': unit['id'], 'target': unit['target'], 'obligation': obl['name'],
           'obligation_text': obl.get('label') or obl.get('desc'), 'clause': obl.get('clause'), 'verifier_description': obl.get('desc'),
           'source': {'file': obl.get('file'), 'line': obl.get('line'), 'function': obl.get('function')},
           'verifier_output_dir': unit_result.get('dir'), 'trace': obl.get('trace', []), 'recipe': None, 'native': None}
    reproduced = False
    try:
        import recipes
        recipe = recipes.derive(unit, obl)
        rec['recipe'] = recipe
        if recipe is not None:
            ok, out = recipes.run_native(recipe, log)
            rec['native'] = {'reproduced': ok, 'output': out[-4000:]}
            reproduced = ok
    except Exception as e:      # replay machinery must never turn a violation into a crash
        rec['native'] = {'reproduced': False, 'output': 'replay derivation failed: %r' % (e,)}
    json.dump(rec, open(path, 'w'), indent=1)
    return path, reproduced

def replay_file(path, log=print):
    rec = json.load(open(path))
    print('replay of %s: obligation %s (%s)' % (rec['property'], rec['obligation'], rec['obligation_text']))
    if rec.get('recipe'):
        import recipes
        ok, out = recipes.run_native(rec['recipe'], log)
        print(out[-3000:])
        print('reproduced natively: %s' % ok)
        return 1 if ok else 0
    print('no native recipe; verifier trace (last assignments):')
    for t in rec.get('trace', [])[-40:]:
        print('   ', t)
    return 1
