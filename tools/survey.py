import sys, collections
sys.path.insert(0, '/verif/tools')
from astload import *
a = AST(sys.argv[1])
DEP = {'CXXDependentScopeMemberExpr','UnresolvedLookupExpr','UnresolvedMemberExpr','CXXUnresolvedConstructExpr','DependentScopeDeclRefExpr','PackExpansionExpr','ParenListExpr'}
def kinds(n, acc):
    if not isinstance(n, dict): return
    k = n.get('kind')
    if k: acc.add(k)
    for c in n.get('inner', []): kinds(c, acc)
def qual(n):
    parts = []
    while n is not None:
        k = n.get('kind')
        if k in ('NamespaceDecl','CXXRecordDecl','ClassTemplateSpecializationDecl','ClassTemplatePartialSpecializationDecl') or k in FUNC_KINDS:
            nm = n.get('name','?')
            if k == 'ClassTemplateSpecializationDecl':
                nm += '<>'
            parts.append(nm)
        n = a.parent.get(n.get('id'))
    return '::'.join(reversed(parts))
def is_templ_pattern(n):
    p = a.parent.get(n['id'])
    while p is not None:
        if p.get('kind') in ('ClassTemplateDecl','ClassTemplatePartialSpecializationDecl'):
            return True
        if p.get('kind') == 'ClassTemplateSpecializationDecl':
            return False
        if p.get('kind') == 'FunctionTemplateDecl':
            # pattern is first function child
            fs = [c for c in p['inner'] if c.get('kind') in FUNC_KINDS]
            return fs and fs[0]['id'] == n['id']
        n = p
        p = a.parent.get(p['id'])
    return False
cnt = collections.Counter()
allk = collections.Counter()
for n in a.by_id.values():
    if n.get('kind') in FUNC_KINDS and body_of(n) is not None:
        ks = set(); kinds(n, ks)
        if ks & DEP: continue
        q = qual(n)
        cnt[q] += 1
        for k in ks: allk[k]+=1
for q, c in sorted(cnt.items()):
    print(c, q)
print(len(cnt), 'distinct', sum(cnt.values()), 'bodies')
print(sorted(allk.items(), key=lambda x:-x[1]))
