#!/bin/bash
# warm the content-addressed cache: run every claimed check (tier $1, default quick) from a snapshot copy of /verif, so that edits made in
# /verif meanwhile do not mix into the run; results land in build/cache and a later run in /verif itself is served from it
tier=${1:-quick}
vs=/tmp/vs_warm_$$
rm -rf "$vs"; mkdir -p "$vs" && rsync -a --exclude build --exclude .git --exclude replays /verif/ "$vs/" && mkdir -p "$vs/build" && ln -s /verif/build/cache "$vs/build/cache"
cd "$vs"
for p in $(python3 -c "import json;print(' '.join(c['property_id'] for c in json.load(open('MANIFEST.json'))['checks']))"); do
  s=$(date +%s); out=$(python3 tools/check.py $p --tier $tier 2>&1); rc=$?; e=$(date +%s)
  echo "== $p rc=$rc $((e-s))s $(echo "$out" | grep -v '^VIOLATION' | tail -2 | cut -c1-300 | tr '\n' '|')"
done
cd /; rm -rf "$vs"
