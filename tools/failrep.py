import json,collections,sys
r=json.load(open(sys.argv[1]))
c=collections.Counter(); ex={}
for k,v in r['failed'].items():
    if 'ElemT' in k or 'ElemT' in v or 'other element' in v: continue
    key=v[:int(sys.argv[2]) if len(sys.argv)>2 else 120]
    c[key]+=1; ex.setdefault(key,k)
for k,v in c.most_common(70): print(v,k,'   e.g.',ex[k])
print('missing facts', r['missing_facts'])
