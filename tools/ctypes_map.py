"""Type-string canonicalisation and mapping of clang type strings to C types (part of cxx2c)."""
import re

class Unsupported(Exception):
    pass

BUILTIN = {
    'bool': '_Bool', 'char': 'char', 'signed char': 'int8_t', 'unsigned char': 'uint8_t',
    'short': 'int16_t', 'unsigned short': 'uint16_t', 'int': 'int', 'unsigned int': 'uint32_t',
    'long': 'int64_t', 'unsigned long': 'uint64_t', 'long long': 'int64_t', 'unsigned long long': 'uint64_t',
    'void': 'void', 'std::nullptr_t': 'void *', 'nullptr_t': 'void *',
}
ALIASES = {
    'uint8_t': 'unsigned char', 'std::uint8_t': 'unsigned char', 'uint16_t': 'unsigned short', 'std::uint16_t': 'unsigned short',
    'uint32_t': 'unsigned int', 'std::uint32_t': 'unsigned int', 'uint64_t': 'unsigned long', 'std::uint64_t': 'unsigned long',
    'uintmax_t': 'unsigned long', 'std::uintmax_t': 'unsigned long', 'size_t': 'unsigned long', 'std::size_t': 'unsigned long',
    'ptrdiff_t': 'long', 'std::ptrdiff_t': 'long', 'int8_t': 'signed char', 'std::int8_t': 'signed char',
    'int16_t': 'short', 'int32_t': 'int', 'int64_t': 'long', 'intmax_t': 'long',
}
ABBR = {
    '_Bool': 'b', 'char': 'c', 'int8_t': 'i8', 'uint8_t': 'u8', 'int16_t': 'i16', 'uint16_t': 'u16', 'int': 'i32',
    'uint32_t': 'u32', 'int64_t': 'i64', 'uint64_t': 'u64', 'void': 'v', 'E': 'E',
}

def split_targs(s):
    """split 'A<B, C<D, E>>, F' at top-level commas"""
    out, depth, cur = [], 0, ''
    for ch in s:
        if ch in '<([':
            depth += 1
        elif ch in '>)]':
            depth -= 1
        if ch == ',' and depth == 0:
            out.append(cur.strip()); cur = ''
        else:
            cur += ch
    if cur.strip():
        out.append(cur.strip())
    return out

def strip_cv(s):
    s = s.strip()
    changed = True
    while changed:
        changed = False
        for q in ('const ', 'volatile ', 'typename ', 'struct ', 'class '):
            if s.startswith(q):
                s = s[len(q):].strip(); changed = True
        for q in (' const', ' volatile'):
            if s.endswith(q):
                s = s[:-len(q)].strip(); changed = True
    return s

class TypeMap:
    def __init__(self, elem_name, other_elems):
        self.elem = elem_name
        self.other_elems = set(other_elems)
        self.alias_resolver = None
        self.struct_tags = {}      # canonical class string -> tag
        self.need_structs = []     # canonical strings in order of first use

    # ---- canonical form of a type string -------------------------------------------------
    NS_RE = re.compile(r'\b(amc::vec::|amc::memory_details::|amc::typetraits_details::|amc::|vec::|memory_details::|typetraits_details::)')
    BOOL_ARGS = {'DynamicVector': [3], 'VectorImpl': [3], 'VectorDestr': [3, 5], 'ImplModeFactory': [2],
                 'is_trivially_relocatable_impl': [1], 'DefineDestructor': [1], 'DynamicVectorBaseTypeDispatcher': [3],
                 'VectorBaseTypeDispatcher': [3], 'SmallSetIterator': [2]}

    def canon(self, s):
        s = self.NS_RE.sub('', s)
        s = re.sub(r"'\\x([0-9a-fA-F]+)'", lambda m: str(int(m.group(1), 16)), s)
        s = re.sub(r"'\\(\d+)'", lambda m: str(int(m.group(1), 8)), s)
        # integer template arguments: the literal suffix depends on how the argument was deduced (4 vs 4UL), the value does not
        s = re.sub(r'(?<![\w.])(\d+)(?:[uU][lL]{0,2}|[lL]{1,2}[uU]?)(?![\w.])', r'\1', s)
        s = strip_cv(s)
        # pointer / reference suffixes
        m = re.match(r'^(.*?)(\s*(\*|&&|&)\s*(const)?)$', s)
        if m and not s.endswith('>') and not s.endswith(')'):
            inner = self.canon(m.group(1))
            suf = m.group(3)
            return inner + ' ' + suf
        m = re.match(r'^(.*)\[(\d*)\]$', s)
        if m:
            return self.canon(m.group(1)) + '[' + m.group(2) + ']'
        if s in ALIASES:
            return ALIASES[s]
        if '<' in s:
            i = s.index('<')
            # find matching '>' of the first '<'
            depth = 0
            for j in range(i, len(s)):
                if s[j] == '<': depth += 1
                elif s[j] == '>':
                    depth -= 1
                    if depth == 0: break
            head, args, tail = s[:i], s[i+1:j], s[j+1:]
            head = self.canon_head(head)
            cargs = [self.canon(a) for a in split_targs(args)]
            if head == 'allocator':
                head = 'BasicAllocatorWrapper'; cargs.append('SimpleAllocator')
            if head == 'vector':
                head = 'Vector'
                T = cargs[0]
                A = cargs[1] if len(cargs) > 1 else 'BasicAllocatorWrapper<%s, SimpleAllocator>' % T
                S = cargs[2] if len(cargs) > 2 else 'unsigned int'
                cargs = [T, A, S, 'DynamicGrowingPolicy', '0']
            if head == 'FlatSet' and len(cargs) in (2, 3):
                if len(cargs) == 2:
                    cargs.append('BasicAllocatorWrapper<%s, SimpleAllocator>' % cargs[0])
                cargs.append('Vector<%s, %s, unsigned int, DynamicGrowingPolicy, 0>' % (cargs[0], cargs[2]))
            if head == 'VectorWithInplaceStorage' and len(cargs) == 6 and cargs[5] == 'void':
                cargs = cargs[:5]
            for bi in self.BOOL_ARGS.get(head, []):
                if bi < len(cargs):
                    cargs[bi] = {'-1': 'true', '1': 'true', '0': 'false'}.get(cargs[bi], cargs[bi])
            r = head + '<' + ', '.join(cargs) + '>'
            if tail.startswith('::'):
                member = tail[2:]
                res = self.alias_resolver(r, member) if self.alias_resolver else None
                if res is not None:
                    return res
                r += tail
            return r
        return self.canon_head(s)

    context_record = None
    _resolving = False

    def canon_head(self, h):
        h = h.strip()
        if self.context_record and self.alias_resolver and not self._resolving and re.fullmatch(r'[A-Za-z_]\w*', h) and h not in BUILTIN and h not in ALIASES and h != self.elem:
            self._resolving = True
            try:
                r = self.alias_resolver(self.context_record, h)
            finally:
                self._resolving = False
            if r is not None:
                return r
        if h in ALIASES:
            return ALIASES[h]
        return h

    # ---- tags ------------------------------------------------------------------------------
    def tag(self, canon):
        """short identifier for a canonical (non-pointer) type string"""
        c = canon
        if c == self.elem:
            return 'E'
        if c in BUILTIN:
            return ABBR.get(BUILTIN[c], re.sub(r'\W', '_', c))
        if c.endswith(' *'):
            return 'p' + self.tag(c[:-2])
        if c.endswith(' &&'):
            return 'rr' + self.tag(c[:-3])
        if c.endswith(' &'):
            return 'r' + self.tag(c[:-2])
        m = re.match(r'^(.*)\[(\d*)\]$', c)
        if m:
            return 'a' + m.group(2) + self.tag(m.group(1))
        fixed = {
            'BasicAllocatorWrapper<%s, SimpleAllocator>' % self.elem: 'A',
            'GhostStdAlloc<%s>' % self.elem: 'G',
            'EmptyAlloc': 'X',
            'DynamicGrowingPolicy': 'Dyn', 'ExceptionGrowingPolicy': 'Exc',
            'UncheckedGrowingPolicy': 'Unc', 'true': 't', 'false': 'f',
        }
        if c in fixed:
            return fixed[c]
        if '<' in c and c.endswith('>'):
            i = c.index('<')
            head = c[:i].split('::')[-1]
            args = split_targs(c[i+1:-1])
            return head + '_' + '_'.join(self.tag(a) for a in args)
        if '<' in c:
            # nested class of a template: X<...>::node_type
            i = c.rindex('>::')
            return self.tag(c[:i+1]) + '__' + re.sub(r'\W', '_', c[i+3:])
        return re.sub(r'\W', '_', c.replace('std::', 'std_'))

    # ---- C type ------------------------------------------------------------------------------
    def ctype_of(self, tobj):
        if isinstance(tobj, str):
            return self.ctype(tobj)
        q = tobj.get('desugaredQualType') or tobj.get('qualType')
        try:
            return self.ctype(q)
        except Unsupported:
            if tobj.get('desugaredQualType') and tobj.get('qualType'):
                return self.ctype(tobj['qualType'])
            raise

    def canon_of(self, tobj):
        if isinstance(tobj, str):
            return self.canon(tobj)
        return self.canon(tobj.get('desugaredQualType') or tobj.get('qualType'))

    def ctype(self, s):
        c = self.canon(s)
        return self._ctype_c(c)

    def _ctype_c(self, c):
        if c.endswith(' *') or c.endswith(' &'):
            return self._ctype_c(c[:-2]) + ' *'
        if c.endswith(' &&'):
            return self._ctype_c(c[:-3]) + ' *'
        m = re.match(r'^(.*)\[(\d*)\]$', c)
        if m:
            raise Unsupported('array type in value position: ' + c)
        if c in BUILTIN:
            return BUILTIN[c]
        if c == self.elem:
            return 'E'
        if c in self.other_elems or any(re.search(r'\b%s\b' % o, c) for o in self.other_elems):
            raise Unsupported('other element type: ' + c)
        if re.match(r'^[\w:]+(<.*>)?(::\w+)*$', c):
            t = self.tag(c)
            if c not in self.struct_tags:
                self.struct_tags[c] = t
                self.need_structs.append(c)
            return 'struct ' + t
        raise Unsupported('type: ' + c)

    def is_elem(self, tobj):
        try:
            return self.canon_of(tobj) == self.elem
        except Exception:
            return False
