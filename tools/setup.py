#!/usr/bin/env python3
"""offline setup: check the tools the checks need and self-test the lowering on the current headers"""
import shutil, subprocess, sys, os
need = ['clang++', 'g++', 'goto-cc', 'goto-instrument', 'cbmc', 'python3']
missing = [t for t in need if shutil.which(t) is None]
if missing:
    print('missing tools:', missing); sys.exit(1)
os.makedirs(os.path.join(os.path.dirname(os.path.dirname(os.path.abspath(__file__))), 'build', 'cache'), exist_ok=True)
print('setup ok')
