#!/bin/bash
# confirm a seeded change in a scratch worktree: applies, builds, existing tests pass, demo fails with / passes without
# usage: tools/seedconfirm.sh /verif/seeded/<id>
d="$1"; id=$(basename "$d"); wt=/tmp/wtc_$id
git -C /repo worktree add -q --detach "$wt" HEAD || exit 2
res() { echo "$id: $*"; }
( cd "$wt"
  g++ -std=${DEMO_STD:-c++17} -DAMC_NONSTD_FEATURES -I"$wt/include" "$d/demo.cpp" -o /tmp/demo_$id.clean 2>/tmp/demo_$id.err || { res "demo does not compile on clean tree"; exit 0; }
  /tmp/demo_$id.clean >/dev/null 2>&1; rc_clean=$?
  if ! git apply "$d/patch.diff"; then res "patch does not apply"; exit 0; fi
  g++ -std=${DEMO_STD:-c++17} -DAMC_NONSTD_FEATURES -I"$wt/include" "$d/demo.cpp" -o /tmp/demo_$id.seed 2>>/tmp/demo_$id.err || { res "demo does not compile with change"; exit 0; }
  timeout 120 /tmp/demo_$id.seed >/dev/null 2>&1; rc_seed=$?
  cmake -G Ninja -S . -B _build -DCMAKE_BUILD_TYPE=Release >/dev/null 2>&1 && cmake --build _build >/dev/null 2>&1; rc_build=$?
  tests="not run"; if [ $rc_build -eq 0 ]; then ctest --test-dir _build -j8 --timeout 900 2>&1 | grep -q "100% tests passed" && tests=pass || tests=FAIL; fi
  res "demo clean rc=$rc_clean, demo seeded rc=$rc_seed, build rc=$rc_build, existing tests: $tests"
)
rm -rf "$wt/_build"; git -C /repo worktree remove --force "$wt"; rm -f /tmp/demo_$id.*
