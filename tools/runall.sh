#!/bin/bash
# dry run of every claimed quick check from a snapshot of /verif (shares the content-addressed cache); results in build/runall.log
vs=/tmp/vs_full; rm -rf $vs; mkdir -p $vs && rsync -a --exclude build --exclude .git --exclude replays /verif/ $vs/ && mkdir -p $vs/build && ln -s /verif/build/cache $vs/build/cache
cd $vs
for p in $(python3 -c "import json;print(' '.join(c['property_id'] for c in json.load(open('MANIFEST.json'))['checks']))"); do
  s=$(date +%s); out=$(python3 tools/check.py $p 2>&1); rc=$?; e=$(date +%s)
  echo "== $p rc=$rc $((e-s))s"; echo "$out" | grep -E "VIOLATION|UNDECIDED|failed obligation|discharged" | cut -c1-220 | head -8
done
rm -rf $vs
