#!/bin/bash
# usage: tools/seedtest2.sh <seed-dir> <prop> [<prop>...]
# Runs the checks against a seeded change WITHOUT touching /repo or the live /verif: the patch is applied in a scratch worktree
# of /repo (AMC_REPO), the checks run from a snapshot copy of /verif that shares the content-addressed build cache.
set -u
d="$1"; shift
id=$(basename "$d")
wt=/tmp/wts_$id; vs=/tmp/vs_$id
rm -rf "$vs"; git -C /repo worktree remove --force "$wt" 2>/dev/null
git -C /repo worktree add -q --detach "$wt" HEAD || exit 2
if ! git -C "$wt" apply "$d/patch.diff" 2>/dev/null && ! (cd "$wt" && patch -p1 --fuzz=3 -s < "$d/patch.diff"); then echo "$id: PATCH DOES NOT APPLY"; git -C /repo worktree remove --force "$wt"; exit 3; fi
mkdir -p "$vs" && rsync -a --exclude build --exclude .git --exclude replays /verif/ "$vs/" && mkdir -p "$vs/build" && ln -s /verif/build/cache "$vs/build/cache"
for p in "$@"; do
  out=$(cd "$vs" && AMC_REPO="$wt" python3 tools/check.py "$p" 2>&1); rc=$?
  echo "== $id $p rc=$rc"
  echo "$out" | grep -E "failed obligation|UNDECIDED" | cut -c1-260 | head -6
done
git -C /repo worktree remove --force "$wt"; rm -rf "$vs"
