#!/usr/bin/env python3
"""./check <property> [--tier quick|thorough] [--replay file] [--unit regex] [--verbose]

exit 0: every obligation generated for the property from /repo's current working tree was discharged
exit 1: VIOLATION property=<id> replay=<path>
exit 2: undecided / infrastructure (timeout, extraction stop, renamed function, missing spec): never a violation
"""
import os, sys, re, json, time, argparse, importlib.util, concurrent.futures, traceback
sys.path.insert(0, os.path.dirname(os.path.abspath(__file__)))
import pipeline as P

def load_units():
    spec = importlib.util.spec_from_file_location('units', os.path.join(P.VERIF, 'contracts', 'units.py'))
    m = importlib.util.module_from_spec(spec); spec.loader.exec_module(m)
    return m

GENERIC_PROPS = {'C02', 'C08', 'C16'}

def relevant(o, prop, unit):
    if 'VAC' in o['tags']:
        return False
    if o['tags']:
        return prop in o['tags']
    # CBMC-generated safety / frame obligations
    if o['name'].find('.assigns.') >= 0 or 'is assignable' in o['desc']:
        return prop in ('C20',) or prop in unit.get('frame_props', ['C20'])
    return prop in GENERIC_PROPS or prop in unit.get('generic_props', [])

def main():
    ap = argparse.ArgumentParser()
    ap.add_argument('prop')
    ap.add_argument('--tier', default=os.environ.get('VERIF_TIER', 'quick'))
    ap.add_argument('--replay')
    ap.add_argument('--unit', help='only units whose id matches this regex')
    ap.add_argument('--verbose', action='store_true')
    ap.add_argument('--jobs', type=int, default=int(os.environ.get('VERIF_JOBS', '16')))
    args = ap.parse_args()
    seed = int(os.environ.get('VERIF_SEED', '0') or 0)
    t_start = time.time()
    logs = []
    def log(m):
        logs.append(m)
        if args.verbose:
            print('[check] ' + m, flush=True)
    U = load_units()
    prop = args.prop
    if args.replay:
        import replay
        sys.exit(replay.replay_file(args.replay, log=print))
    try:
        units = [u for u in U.units() if prop in u['props'] and (args.tier == 'thorough' or u.get('tier', 'quick') == 'quick')]
        if args.unit:
            units = [u for u in units if re.search(args.unit, u['id'])]
        if not units:
            print('no units registered for %s (property not claimed)' % prop)
            sys.exit(2)
        specs = P.load_specs()
        xdirs, reports = {}, {}
        for key in sorted({(u['cfg'], u['elem']) for u in units}):
            xdirs[key] = P.extract(key[0], key[1], log)
            reports[key] = json.load(open(os.path.join(xdirs[key], 'report.json')))
        import findings
        jobs = []
        kf_of = {}
        for u in units:
            key = (u['cfg'], u['elem'])
            kfs = findings.for_unit(u['id'])
            kf_of[u['id']] = kfs
            excl = ()
            if kfs:
                excl = ('-DKF_EXCLUDE=(' + ' && '.join('!(%s)' % f['pred'] for f in kfs) + ')',)
            cases = u.get('cases')
            if cases:
                # case split of the precondition: each case is proved on its own; the last, generated case shows exhaustiveness
                allc = list(cases) + ['!(' + ') && !('.join(cases) + ')']
                for i, cpred in enumerate(allc):
                    jobs.append((u, 'main#%d' % i, excl + ('-DCASE_PRED=(%s)' % cpred,)))
            else:
                jobs.append((u, 'main', excl))
            if not u.get('bounded'):
                jobs.append((u, 'vacuity', excl + ('-DVAC_NORMAL=0', '-DVAC_EXC=0')))
            for f in kfs:
                jobs.append((u, 'kf:' + f['id'], ('-DKF_EXCLUDE=(%s)' % f['pred'],)))
        results = {}
        def work(job):
            u, variant, defs = job
            key = (u['cfg'], u['elem'])
            try:
                return job, P.run_unit(u, xdirs[key], specs, reports[key], variant, defs, log, timeout=u.get('timeout', 600))
            except P.Infra as e:
                return job, {'status': 'infra', 'error': str(e), 'unit': u['id'], 'variant': variant, 'seconds': 0}
        with concurrent.futures.ThreadPoolExecutor(max_workers=args.jobs) as ex:
            for job, res in ex.map(work, jobs):
                results[(job[0]['id'], job[1])] = res
                log('%s/%s: %s %.1fs%s' % (job[0]['id'], job[1], res['status'], res.get('seconds', 0), ' (cached)' if res.get('cached') else ''))
    except P.Infra as e:
        print('UNDECIDED (infrastructure): %s' % e)
        sys.exit(2)
    for u in units:
        if u.get('cases'):
            parts = [results[k] for k in results if k[0] == u['id'] and k[1].startswith('main#')]
            merged = {'status': 'ok', 'obligations': [], 'seconds': sum(p.get('seconds', 0) for p in parts), 'warnings': [], 'dir': parts[0].get('dir')}
            for i, p in enumerate(parts):
                if p['status'] != 'ok':
                    merged = dict(p); break
                for o in p['obligations']:
                    o2 = dict(o); o2['name'] = o['name'] + '@case%d' % i
                    merged['obligations'].append(o2)
                merged['warnings'] += p.get('warnings', [])
            results[(u['id'], 'main')] = merged
    # ------------------------------------------------------------------ evaluation
    infra, failures, total, discharged, vac_problems = [], [], 0, 0, []
    samples, fn_under_contract, solver_s, by_unit, bounded_units = [], [], 0.0, {}, {}
    for u in units:
        rm = results[(u['id'], 'main')]
        if u.get('bounded'):
            # bounded stand-in: never counted as proved; its reachability guards play the role of the vacuity run
            if rm['status'] != 'ok':
                infra.append('%s: %s' % (u['id'], rm.get('error'))); continue
            solver_s += rm.get('seconds', 0)
            obl_b = rm['obligations']
            reach_g = [o for o in obl_b if o['desc'].startswith('REACHABILITY')]
            if not reach_g or any(o['status'] != 'FAILURE' for o in reach_g):
                infra.append('%s: reachability guard of the bounded stand-in is missing or not reachable (vacuous)' % u['id'])
            unw_b = [o for o in obl_b if 'unwinding assertion' in o['desc'] and o['status'] == 'FAILURE']
            if unw_b:
                infra.append('%s: the stated bound %s does not cover the loops (%s)' % (u['id'], u['bounded'], unw_b[0]['name']))
            rel_b = [o for o in obl_b if not o['desc'].startswith('REACHABILITY') and 'unwinding assertion' not in o['desc'] and relevant(o, prop, u)]
            ok_b = [o for o in rel_b if o['status'] == 'SUCCESS']
            bounded_units[u['id']] = {'function': (u.get('extra_reach') or [u['target']])[0], 'bound': 'loops unwound %s times; %s' % (u['bounded'], u.get('bound_text', '')),
                                      'obligations': len(rel_b), 'discharged': len(ok_b), 'seconds': round(rm.get('seconds', 0), 2),
                                      'callees_replaced_by_their_specification': u.get('stubbed', []), 'backend': 'cbmc 6.11 --unwind %s --unwinding-assertions + cadical, concrete L0 (ghost/l0c.h)' % u['bounded']}
            any_failure_b = any(o['status'] == 'FAILURE' for o in rel_b)
            for o in rel_b:
                if o['status'] == 'FAILURE':
                    if o['desc'].startswith('UNDECIDED:'):
                        infra.append('%s: %s' % (u['id'], o['desc']))
                    else:
                        failures.append((u, o))
                elif o['status'] != 'SUCCESS' and not any_failure_b:
                    infra.append('%s: obligation %s left %s by the verifier' % (u['id'], o['name'], o['status']))
            continue
        rv = results[(u['id'], 'vacuity')]
        if rm['status'] != 'ok':
            infra.append('%s: %s' % (u['id'], rm.get('error'))); continue
        if rv['status'] != 'ok':
            infra.append('%s (vacuity run): %s' % (u['id'], rv.get('error'))); continue
        solver_s += rm.get('seconds', 0) + rv.get('seconds', 0)
        if rm.get('warnings'):
            infra.append('%s: suspicious verifier messages %s' % (u['id'], rm['warnings'][:2]))
        obl = rm['obligations']
        if not obl:
            infra.append('%s: zero obligations generated' % u['id']); continue
        # vacuity: guards must FAIL in the vacuity run
        vac = [o for o in rv['obligations'] if 'VAC' in o['tags']]
        if not vac:
            infra.append('%s: vacuity guards missing' % u['id'])
        for o in vac:
            need = 'normal' in o['label'] or u.get('throws_reachable', True)
            if o['status'] != 'FAILURE' and need:
                vac_problems.append('%s: %s is NOT reachable under the preconditions (vacuous contract)' % (u['id'], o['label']))
        undef = [o for o in obl if 'undefined function should be unreachable' in o['desc'] or 'no body' in o['desc']]
        if any(o['status'] == 'FAILURE' for o in undef):
            infra.append('%s: callee without body or contract reached' % u['id'])
        unw = [o for o in obl if 'unwinding assertion' in o['desc'] and o['status'] == 'FAILURE']
        if unw:
            infra.append('%s: loop without (sufficient) loop contract: %s' % (u['id'], unw[0]['name']))
        rel = [o for o in obl if relevant(o, prop, u)]
        total += len(rel)
        ok = [o for o in rel if o['status'] == 'SUCCESS']
        discharged += len(ok)
        by_unit[u['id']] = {'target': u['target'], 'obligations': len(rel), 'discharged': len(ok), 'seconds': round(rm.get('seconds', 0), 2),
                            'replaced_by_contract': u.get('replace', []), 'backend': 'cbmc 6.11 symex + cadical'}
        any_failure = any(o['status'] == 'FAILURE' for o in obl)
        for o in rel:
            if o['status'] != 'SUCCESS':
                if o['status'] != 'FAILURE':
                    # the verifier left the obligation undecided (it stops refining once other obligations of the run have failed):
                    # never a verdict of its own
                    if not any_failure:
                        infra.append('%s: obligation %s left %s by the verifier' % (u['id'], o['name'], o['status']))
                    continue
                if o['desc'].startswith('UNDECIDED:'):
                    # the code left the region the ghost model can reason about (e.g. consulted an unregistered element): not a verdict
                    infra.append('%s: %s' % (u['id'], o['desc']))
                else:
                    failures.append((u, o))
        fn_under_contract.append(u['target'])
        import random
        rnd = random.Random(seed + len(samples))
        for o in rnd.sample(ok, min(2, len(ok))):
            samples.append({'unit': u['id'], 'obligation': o['name'], 'text': (o['label'] or o['desc'])[:160], 'status': o['status']})
    infra.extend(vac_problems)
    # known findings: the excluded input region is re-run on its own; a failure there is the finding still being present
    known_lines = []
    kf_hits = {}
    for u in units:
        for f in kf_of.get(u['id'], []):
            r = results.get((u['id'], 'kf:' + f['id']))
            if r is None or r['status'] != 'ok':
                infra.append('%s: known-finding confirmation run %s undecided: %s' % (u['id'], f['id'], (r or {}).get('error')))
                continue
            bad = [o for o in r['obligations'] if o['status'] == 'FAILURE' and relevant(o, prop, u)]
            if bad and prop in f['properties']:
                kf_hits.setdefault(f['id'], (f, []))[1].append(u['id'])
    for fid, (f, us_) in sorted(kf_hits.items()):
        known_lines.append('%s [%s; input region: %s; confirmed in %d unit(s): %s]' % (f['what'], fid, f['pred'], len(us_), ', '.join(us_[:3]) + (' ...' if len(us_) > 3 else '')))
    new_failures = failures
    wall = time.time() - t_start
    ev = {
        'property_id': prop, 'tier': args.tier if args.tier in ('quick', 'thorough') else 'quick', 'seed': seed, 'level': 'proof',
        'coverage': {
            'obligations': total, 'discharged': discharged,
            'checker_cmd': 'goto-cc --function harness unit.c; goto-instrument --dfcc harness --enforce-contract <f> [--replace-call-with-contract g]* --apply-loop-contracts; cbmc ' + ' '.join(P.CBMC_FLAGS),
            'trusted_base': U.TRUSTED_BASE,
            'functions_under_contract': sorted(set(fn_under_contract)),
            'units': by_unit, 'solver_seconds': round(solver_s, 1), 'samples': samples[:12],
            'bounded': bounded_units,
            'bounded_note': 'units listed under "bounded" are stand-ins checked up to a stated bound on concrete memory; their obligations are NOT included in obligations/discharged and are not claimed as proved',
            'not_under_contract': U.NOT_UNDER_CONTRACT.get(prop, []),
            'lowering_drops': U.LOWERING_DROPS,
            'undecided': infra,
            'known_findings': known_lines,
        },
        'assumptions': U.ASSUMPTIONS + U.PROP_ASSUMPTIONS.get(prop, []),
        'wall_s': round(wall, 1), 'violations': len(new_failures),
    }
    os.makedirs(os.path.join(P.VERIF, 'evidence'), exist_ok=True)
    json.dump(ev, open(os.path.join(P.VERIF, 'evidence', prop + '.json'), 'w'), indent=1)
    for l in known_lines:
        print('KNOWN-FINDING: property=%s %s' % (prop, l))
    if new_failures:
        import replay
        os.makedirs(os.path.join(P.VERIF, 'replays'), exist_ok=True)
        seen = set()
        for u, o in new_failures:
            key = (u['id'], o['label'] or o['desc'])
            if key in seen:
                continue
            seen.add(key)
            path, reproduced = replay.make_replay(prop, u, o, results[(u['id'], 'main')], log)
            tail = '' if reproduced else ' no-failing-input-found'
            print('  failed obligation: unit=%s %s [%s]' % (u['id'], o['label'] or o['desc'], o['name']))
            print('VIOLATION property=%s replay=%s%s' % (prop, path, tail))
        sys.exit(1)
    # A loop without a loop contract inside a function that a unit of this property depends on: the obligation `<function>.unwind.<k>`
    # does not exist on the unchanged tree (no such loop) and fails now.  On its own that is undecided (a harmless new loop is no
    # violation).  For C19 (a scan over unregistered elements is outside the abstract set model) and C15 (the element categories of
    # the proofs have non-throwing moves) the candidate is replayed natively on the real headers; only a failing input makes it a violation.
    NATIVE = {'C19': (('fs.', 'ss.'), 'native_cost.cpp', ['c++17'], 'comparator calls of a lookup / position search stay within the bounds of the property (counting comparator)'),
              'C15': (('mem14.',), 'native_mem.cpp', ['c++14', 'c++11', 'c++17'], 'the algorithm behaves as its standard namesake, all-or-nothing on a throw (live-object ledger, every throw index)')}
    if infra and not new_failures and prop in NATIVE:
        prefixes, srcname, stds, what = NATIVE[prop]
        loops = [m for m in infra if 'loop without (sufficient) loop contract' in m and m.startswith(prefixes)]
        for std in (stds if loops else []):
            exe = os.path.join(P.BUILD, 'native_%s_%d' % (prop, os.getpid()))
            rc, out, err, dt = P.run(['g++', '-std=' + std, '-O1', '-DAMC_NONSTD_FEATURES', '-I' + os.path.join(P.REPO, 'include'),
                                      os.path.join(P.VERIF, 'replay', srcname), '-o', exe], timeout=300, mem_gb=8)
            if rc != 0:
                continue
            rc2, out2, err2, dt2 = P.run([exe], timeout=300, mem_gb=8)
            try:
                os.unlink(exe)
            except OSError:
                pass
            fails = [l for l in out2.splitlines() if l.startswith('FAIL ')]
            if rc2 == 1 and fails:
                os.makedirs(os.path.join(P.VERIF, 'replays'), exist_ok=True)
                path = os.path.join(P.VERIF, 'replays', re.sub(r'\W+', '_', prop + '_' + loops[0].split(':')[-1].strip())[:150] + '.json')
                json.dump({'property': prop, 'obligation': loops[0].split(': ')[-1], 'obligation_text': 'every loop of a function under contract is closed by a loop contract (unwinding assertion); ' + what,
                           'verifier_output': loops, 'native': {'reproduced': True, 'program': 'replay/%s (real headers of %s, -std=%s)' % (srcname, P.REPO, std),
                                                                'failing_inputs': fails[:12], 'output_tail': out2[-1500:]}}, open(path, 'w'), indent=1)
                ev['violations'] = 1
                json.dump(ev, open(os.path.join(P.VERIF, 'evidence', prop + '.json'), 'w'), indent=1)
                print('  failed obligation: %s; replayed natively (-std=%s): %s' % (loops[0], std, fails[0]))
                print('VIOLATION property=%s replay=%s' % (prop, path))
                sys.exit(1)
    if infra and not new_failures:
        for m in infra:
            print('UNDECIDED: ' + m)
        sys.exit(2)
    btxt = ''
    if bounded_units:
        btxt = '; bounded stand-ins (not counted as proved): %d units, %d of %d obligations hold up to the stated bounds' % (
            len(bounded_units), sum(b['discharged'] for b in bounded_units.values()), sum(b['obligations'] for b in bounded_units.values()))
    print('%s: %d obligations over %d functions under contract, all discharged%s (%.1fs)' % (prop, total, len(set(fn_under_contract)), btxt, wall))
    sys.exit(0)

if __name__ == '__main__':
    main()
