import sys, os
sys.path.insert(0, os.path.dirname(os.path.abspath(__file__)))
import pipeline
print(pipeline.extract(sys.argv[1] if len(sys.argv) > 1 else 'main17', sys.argv[2] if len(sys.argv) > 2 else 'ElemNR', lambda *a: None))
