"""Registry of verification units: one unit = one function under contract in one configuration."""
SIZES = {'u8': ('uint8_t', '255'), 'u16': ('uint16_t', '65535'), 'u32': ('uint32_t', '4294967295U'), 'u64': ('uint64_t', '18446744073709551615UL')}
ELEM_TAG = {'ElemNR': 'NR', 'ElemTR': 'TR', 'ElemTC': 'TC'}

TRUSTED_BASE = [
    'clang 14 parse/instantiation of the real headers (JSON AST) equals the compiler used to build users',
    'cxx2c lowering rules (closed world; aborts on anything unknown); lowered text kept under build/cache for inspection',
    'L0 ghost semantics of element special members, std:: algorithms, memcpy/memmove, malloc/realloc/free = C++ standard (ghost/l0.h)',
    'CBMC 6.11 symbolic execution, goto-instrument --dfcc contract instrumentation, CaDiCaL',
    'history induction (constructors establish the invariant, every operation preserves it from any state satisfying it) is a paper argument; each step is machine-checked',
]
ASSUMPTIONS = [
    'machine integers are bit-vectors of the real widths',
    'element types obey their declared category (a type declaring trivially_relocatable really is; move of category NR is noexcept)',
    'relational comparison of pointers into different objects (the "is v inside [begin,end)" idiom of adjustCapacity) yields a total order on (object, offset)',
    'one arbitrary element cell / value token / allocator block is tracked per proof run (skolemised universal quantification)',
    'pointer arithmetic on null with offset 0 and null - null are defined (C++), CBMC pointer checks for them are bypassed through L0_PADD / L0_PDIFF',
    'bounded stand-ins only: concrete L0 (ghost/l0c.h) is an executable reading of the same std:: semantics; inside FlatSet stand-ins the vector operations are replaced by executable specifications (harness/bounded_vec_stubs.c) that restate the contracts proved in the op.* units -- the restatement itself is not machine-checked',
    'static.traits (C14 converse): trait values are computed by g++ 12 from the real headers for 60 instantiations (three element kinds x four comparators x two underlying vectors / two large containers); other instantiations are not covered',
    'static.shared_state (C20, supporting static fact, not a contract): clang 14 parses every header of include/amc under C++11 / C++17 / C++20 (text AST, uninstantiated template patterns included); the unit asserts that no declaration with static storage duration is writable and that no data member is mutable. Writes through const_cast or through pointers held by the object are not seen by it (they are frame obligations of the const members under contract); state inside the standard library is trusted',
    'ghost/ext_mem.h (two C15 units): std::uninitialized_copy on std::move_iterator is assumed to be std::uninitialized_move',
]
PROP_ASSUMPTIONS = {}
BOUNDED = {}
_NUC_VEC = ['Vector constructors from iterator ranges that are not pointers; operator<=> (C++20); swap2 with size types other than 8/16 bit',
            'allocators other than amc::allocator (the allocate-relocate-deallocate path is exercised through the non trivially relocatable category only); element types with throwing moves; 32/64-bit and signed size types of the vectors']
_NUC_FS = ['FlatSet: <=> (C++20); heterogeneous (transparent) lookups; insert(initializer_list), operator=(initializer_list), operator=(vector&&) (same code path as the bounded insert(first,last) / construction from a vector); copy assignment',
           'FlatSet merge x2, insert(first,last), construction from a vector: bounded stand-ins only (see coverage.bounded)']
_NUC_SS = ['SmallSet: comparison operators (is_permutation, lambdas, std::visit), insert(first,last), insert(initializer_list), constructors / destructor / copy / move, the std::set-backed instantiation (variant iterators), rbegin/rend',
           'SmallSet::merge: bounded stand-in only (see coverage.bounded); SmallSet large state = abstract SetSpec (FlatSet single-element operations are proved against the same step function in the fs.* units)']
NOT_UNDER_CONTRACT = {
    'C01': _NUC_VEC, 'C02': _NUC_VEC + _NUC_FS + _NUC_SS, 'C05': _NUC_VEC[1:] + _NUC_SS, 'C06': _NUC_VEC[1:], 'C07': _NUC_VEC, 'C08': _NUC_VEC, 'C09': _NUC_VEC + _NUC_FS[:1] + _NUC_SS[:1],
    'C10': _NUC_VEC[:1], 'C13': ['swap2: 32/64-bit and signed size types; allocator types other than amc::allocator (a second allocator type is not in the instantiation matrix)'],
    'C03': _NUC_FS, 'C12': ['emplace_hint / insert(hint, node) for the 32-bit FlatSet run in the thorough tier only'], 'C19': _NUC_FS[:1],
    'C04': _NUC_SS, 'C11': _NUC_SS[:1] + ['walking begin()..end() visits every element exactly once: stated per call (begin/end/erase/find results), not as a whole-traversal contract'],
    'C14': ['forward direction: relocation lemma on the three vector bases (the sets inherit it through their parts); converse direction: 60 instantiations of the static.traits unit'],
    'C15': ['iterator categories other than pointers (forward / bidirectional / move_iterator sources); uninitialized_value_construct / uninitialized_default_construct over [first,last) (lowered; the _n forms are under contract); the public _n wrappers and uninitialized_copy(first,last) are under contract for the non trivially relocatable category only (the [first,last) forms of move / relocate / value_construct / default_construct also for the trivially relocatable one, relocate also for the trivially copyable one); array overloads of construct_at / destroy_at'],
    'C16': ['-O0 vs -O2 and pedantic mode are outside what a source-level contract can see; configurations: C++11, C++14 (assertions on, extras off), C++17 (NDEBUG, extras on), C++20; non-pointer iterator categories not instantiated'],
    'C18': _NUC_VEC[1:], 'C20': ['const members that are not lowered (reverse iterators, comparison operators of SmallSet, heterogeneous lookups): covered only by the static.shared_state unit (no writable static storage, no mutable member), not by a frame obligation'],
}
LOWERING_DROPS = [
    'templates (finite instantiation matrix; inline capacity N stays symbolic in the base classes)',
    'access control, inline/constexpr, attributes; noexcept values are evaluated by the real compiler and kept as facts',
    'element type bytes (opaque; special members are L0 primitives)',
    'bodies of std:: algorithms and malloc/realloc/free (assumed L0 contracts)',
    'C++ exception mechanics (status word l0_exc, explicit edges)',
    'object layout beyond field order',
]

def svb(elem='ElemNR', sz='u8', alloc='A'):
    return 'SmallVectorBase_E_%s_%s' % (alloc, sz)

def base_defs(flavour, base_t, sz):
    ct, mx = SIZES[sz]
    return {'S_T': ct, 'KMAX': mx, 'FLAVOUR': str(flavour), 'BASE_T': 'struct ' + base_t,
            'GHOST_ASSIGNS': 'l0_exc, g_cell_obj, g_cell_off, g_cell_st, g_cell_val, g_tok_on, g_tok_obj, g_tok_off, g_tokval, g_blk_obj, g_blk_bytes, '
                             'g_blk_state, g_nalloc, g_ndealloc, g_nrealloc, g_nctor, g_nassign, g_ndtor, g_nmove, g_nbytecopy, g_ncmp, g_tmp_obj, g_tmp_has, g_tmp_val, g_cmp_obj1, '
                             'g_cmp_off1, g_cmp_n1, g_cmp_obj2, g_cmp_off2, g_cmp_n2, g_cmp_kind SETS_GHOST_ASSIGNS'}

def units():
    us = []
    def add(uid, target, props, flavour, base_t, sz, elem, replace=(), tier='quick', **kw):
        u = {'id': uid, 'cfg': 'main17', 'elem': elem, 'target': target, 'props': list(props), 'replace': list(replace),
             'defs': base_defs(flavour, base_t, sz), 'tier': tier}
        u.update(kw)
        us.append(u)
    for elem in ('ElemNR', 'ElemTR', 'ElemTC'):
        et = ELEM_TAG[elem]
        for sz in ('u8',):
            b = svb(elem, sz)
            S = sz
            for m, props in [('isSmall__v_c', ['C05', 'C20', 'C01']), ('size__v_c', ['C01', 'C20']), ('capacity__v_c', ['C05', 'C07', 'C20']),
                             ('begin__v', ['C05', 'C07']), ('begin__v_c', ['C05', 'C07', 'C20']),
                             ('incrSize__v', ['C01', 'C05', 'C07']), ('decrSize__v', ['C01', 'C05', 'C07']),
                             ('setSize__' + S, ['C01', 'C05', 'C07']), ('msize__v', ['C01', 'C13']), ('mcapacity__v', ['C13']),
                             ('destroyFreeStorage__v', ['C02', 'C06']), ('dtor__v', ['C06']),
                             ('move_construct__r%s_%s' % (b, S), ['C01', 'C02', 'C05', 'C06', 'C07']),
                             ('move_assign__r%s_%s' % (b, S), ['C01', 'C02', 'C05', 'C06', 'C07']),
                             ('grow__u64_b', ['C01', 'C02', 'C06', 'C07', 'C08', 'C09', 'C18']),
                             ('shrink_impl__' + S, ['C01', 'C02', 'C05', 'C06', 'C09', 'C18']),
                             ('swap_impl__r' + b, ['C01', 'C02', 'C05', 'C06', 'C07'])]:
                add('svb.%s.%s.%s' % (m.split('__')[0] + ('_c' if m.endswith('_c') else ''), et, sz), b + '__' + m, props, 1, b, sz, elem,
                    throws_reachable=False)
    # ---- the two other bases
    for elem in ('ElemNR', 'ElemTR', 'ElemTC'):
        et = ELEM_TAG[elem]
        for sz in ('u8',):
            for fl, fnum, b in (('std', 2, 'StdVectorBase_E_A_%s' % sz), ('static', 3, 'StaticVectorBase_E_%s' % sz)):
                lst = [('size__v_c', ['C01', 'C20']), ('capacity__v_c', ['C05', 'C07', 'C20']), ('begin__v', ['C05', 'C07']), ('begin__v_c', ['C05', 'C07', 'C20']),
                       ('incrSize__v', ['C01', 'C05', 'C07']), ('decrSize__v', ['C01', 'C05', 'C07']), ('setSize__' + sz, ['C01', 'C05', 'C07']),
                       ('move_construct__r%s_%s' % (b, sz), ['C01', 'C02', 'C05', 'C06', 'C07']), ('move_assign__r%s_%s' % (b, sz), ['C01', 'C02', 'C05', 'C06', 'C07']),
                       ('swap_impl__r' + b, ['C01', 'C02', 'C05', 'C06', 'C07'])]
                if fl == 'std':
                    lst += [('dtor__v', ['C06']), ('grow__u64_b', ['C01', 'C02', 'C06', 'C07', 'C08', 'C09', 'C18']), ('shrink_impl__' + sz, ['C01', 'C02', 'C06', 'C09', 'C18'])]
                for m, props in lst:
                    pp = [p for p in props if not (fl == 'static' and p == 'C06') and not (fl == 'std' and p == 'C05')]
                    add('%s.%s.%s.%s' % ('dvb' if fl == 'std' else 'fvb', m.split('__')[0] + ('_c' if m.endswith('_c') else ''), et, sz), b + '__' + m, pp, fnum, b, sz, elem,
                        throws_reachable=m.startswith(('grow', 'shrink')))
                    us[-1]['defs']['SIZE_STEP'] = '0' if m.startswith('incr') else ('2' if m.startswith('decr') else '0')
    # ---- public operations (VectorImpl) per flavour
    FLAV = {'small': (1, 'SmallVectorBase_E_A_%s', 'VectorImpl_E_A_%s_t_Dyn'), 'std': (2, 'StdVectorBase_E_A_%s', 'VectorImpl_E_A_%s_f_Dyn'),
            'static': (3, 'StaticVectorBase_E_%s', 'VectorImpl_E_X_%s_t_Exc')}
    ALLP = ['C01', 'C02', 'C05', 'C06', 'C07', 'C08', 'C09', 'C18']
    L2 = [('push_back__rE', ALLP + ['C10']), ('push_back__rrE', ALLP), ('pop_back__v', ['C01', 'C02', 'C05', 'C07', 'C09']),
          ('clear__v', ['C01', 'C02', 'C05', 'C07', 'C09']), ('resize__%(S)s', ALLP), ('resize__%(S)s_rE', ALLP + ['C10']),
          ('insert__pE_rE', ALLP + ['C10']), ('insert__pE_rrE', ALLP), ('insert__pE_%(S)s_rE', ALLP + ['C10']),
          ('erase__pE', ['C01', 'C02', 'C05', 'C07', 'C09']), ('erase__pE_pE', ['C01', 'C02', 'C05', 'C07', 'C09']),
          ('assign__%(S)s_rE', ALLP + ['C10']), ('append__%(S)s', ALLP), ('append__%(S)s_rE', ALLP + ['C10']), ('append__pE_pE', ALLP),
          ('at__%(S)s', ['C01', 'C08']), ('at__%(S)s_c', ['C01', 'C08', 'C20']), ('op_index__%(S)s_c', ['C01', 'C20']), ('data__v_c', ['C01', 'C20']),
          ('end__v_c', ['C01', 'C20']), ('front__v_c', ['C01', 'C20']), ('back__v_c', ['C01', 'C20']), ('empty__v_c', ['C01', 'C20']),
          ('op_eq__r%(V)s_c', ['C01', 'C20']), ('op_lt__r%(V)s_c', ['C01', 'C20']), ('op_ne__r%(V)s_c', ['C01', 'C20']),
          ('op_le__r%(V)s_c', ['C01', 'C20']), ('op_gt__r%(V)s_c', ['C01', 'C20']), ('op_ge__r%(V)s_c', ['C01', 'C20']),
          ('assign__pE_pE', ALLP), ('insert__pE_pE_pE', ALLP), ('pop_back_val__v', ['C01', 'C02', 'C05', 'C07', 'C09']),
          ('op_index__%(S)s', ['C01']), ('data__v', ['C01']), ('end__v', ['C01']), ('front__v', ['C01']), ('back__v', ['C01']), ('cend__v_c', ['C01', 'C20']),
          ('rbegin__v', ['C01']), ('rend__v', ['C01']), ('rbegin__v_c', ['C01', 'C20']), ('rend__v_c', ['C01', 'C20']), ('crbegin__v_c', ['C01', 'C20']), ('crend__v_c', ['C01', 'C20'])]
    # operations defined one level below VectorImpl (DynamicVector / StaticVector)
    DPAT = {'small': 'DynamicVector_E_A_%s_t', 'std': 'DynamicVector_E_A_%s_f', 'static': 'StaticVector_E_%s_Exc'}
    L2D = [('emplace_back__rE', ALLP + ['C10'], 1), ('emplace_back__rrE', ALLP, 2), ('emplace_back__rri32', ALLP, 3),
           ('emplace__pE_rE', ALLP + ['C10'], 1), ('emplace__pE_rrE', ALLP, 2), ('emplace__pE_rri32', ALLP, 3),
           ('reserve__%(S)s', ['C01', 'C05', 'C06', 'C07', 'C08', 'C09', 'C18'], 0)]
    for elem in ('ElemNR', 'ElemTR', 'ElemTC'):
        et = ELEM_TAG[elem]
        for sz in ('u8',):
            for fl, (fnum, bpat, vpat) in FLAV.items():
                for m, props in L2:
                    pp = [p for p in props if not (fl == 'static' and p in ('C06', 'C18')) and not (fl == 'std' and p == 'C05')]
                    m2 = m % {'S': sz, 'V': vpat % sz}
                    add('op.%s.%s.%s.%s' % (m2.split('__')[0] + '_' + m2.split('__')[1][:12], fl, et, sz), (vpat % sz) + '__' + m2, pp, fnum, bpat % sz, sz, elem,
                        throws_reachable=not m2.startswith(('op_eq', 'op_lt', 'op_ne', 'op_le', 'op_gt', 'op_ge', 'pop_back_val', 'op_index', 'data', 'end', 'front', 'back', 'cend', 'rbegin', 'rend', 'crbegin', 'crend')))
                    if m2.startswith(('op_lt', 'op_le', 'op_gt', 'op_ge', 'op_ne')):
                        sw = m2.startswith(('op_gt', 'op_le'))
                        us[-1]['defs'].update({'WITH_EXT_CMP': '1', 'CMP_L': 'o' if sw else 'self', 'CMP_R': 'self' if sw else 'o', 'CMP_NEG': '1' if m2.startswith(('op_le', 'op_ge', 'op_ne')) else '0'})
                    if m2.startswith(('rbegin', 'rend', 'crbegin', 'crend')):
                        us[-1]['defs'].update({'ACC_IS_END': '1' if m2.startswith(('rbegin', 'crbegin')) else '0'})
                    if m2.startswith(('end', 'cend', 'data', 'front', 'back')):
                        us[-1]['defs'].update({'ACC_IS_END': '1' if m2.startswith(('end', 'cend')) else '0', 'ACC_IS_BACK': '1' if m2.startswith('back') else '0'})
                for m, props, ek in L2D:
                    if ek == 3 and elem == 'ElemTC':
                        continue        # ElemTC is an aggregate: no constructor from int
                    pp = [p for p in props if not (fl == 'static' and p in ('C06', 'C18')) and not (fl == 'std' and p == 'C05')]
                    m2 = m % {'S': sz}
                    add('op.%s.%s.%s.%s' % (m2.split('__')[0] + '_' + m2.split('__')[1], fl, et, sz), (DPAT[fl] % sz) + '__' + m2, pp, fnum, bpat % sz, sz, elem)
                    us[-1]['defs']['EMPLACE_KIND'] = str(ek)
    # ---- amc::Vector wrappers, callee replaced by contract (modular)
    for elem in ('ElemNR', 'ElemTR', 'ElemTC'):
        et = ELEM_TAG[elem]
        for sz in ('u8',):
            b = svb(elem, sz)
            V4 = 'Vector_E_A_%s_Dyn_4' % sz
            for m, props, rep in [('op_assign__rr' + V4, ['C01', 'C02', 'C05', 'C06', 'C07'], [b + '__move_assign__r%s_%s' % (b, sz)]),
                                  ('shrink_to_fit__v', ['C01', 'C05', 'C06', 'C09', 'C18'], [b + '__shrink_impl__' + sz]),
                                  ('swap__r' + V4, ['C01', 'C02', 'C05', 'C06', 'C07'], [b + '__swap_impl__r' + b])]:
                add('vec4.%s.%s.%s' % (m.split('__')[0] + '_' + m.split('__')[1][:4], et, sz), V4 + '__' + m, props, 1, b, sz, elem, replace=rep)
                us[-1]['defs']['VEC_N'] = '4'
    # ---- amc::Vector constructors, destructor, copy assignment per flavour (callees inlined; the base-class pieces have their own units)
    VECS = {'small': (1, 'SmallVectorBase_E_A_%s', 'Vector_E_A_%s_Dyn_4', '4', 'A'), 'std': (2, 'StdVectorBase_E_A_%s', 'Vector_E_A_%s_Dyn_0', '0', 'A'),
            'static': (3, 'StaticVectorBase_E_%s', 'Vector_E_X_%s_Exc_4', '4', 'X')}
    for elem in ('ElemNR', 'ElemTR', 'ElemTC'):
        et = ELEM_TAG[elem]
        for sz in ('u8',):
            for fl, (fnum, bpat, vpat, vn, al) in VECS.items():
                V = vpat % sz
                CP = ['C01', 'C02', 'C05', 'C06', 'C07', 'C08', 'C09', 'C18']
                for m, props, thr in [('ctor__v', ['C01', 'C02', 'C05', 'C06', 'C07'], False), ('ctor__r' + al, ['C01', 'C02', 'C05', 'C06', 'C07'], False),
                                      ('ctor__%s_r%s' % (sz, al), CP, True), ('ctor__%s_rE_r%s' % (sz, al), CP + ['C10'], True),
                                      ('ctor__initializer_list_E_r' + al, CP, True),
                                      ('ctor__r' + V, CP, True), ('ctor__r%s_r%s' % (V, al), CP, True),
                                      ('ctor__rr' + V, ['C01', 'C02', 'C05', 'C06', 'C07'], False), ('ctor__rr%s_r%s' % (V, al), ['C01', 'C02', 'C05', 'C06', 'C07'], False),
                                      ('dtor__v', ['C02', 'C06'], False), ('op_assign__r' + V, CP, True)]:
                    if m == 'dtor__v' and fl == 'static' and elem == 'ElemTC':
                        continue        # FixedCapacityVector of a trivially destructible type is itself trivially destructible: no destructor exists
                    pp = [p for p in props if not (fl == 'static' and p in ('C06', 'C18')) and not (fl == 'std' and p == 'C05')]
                    short = m.replace('__', '_').replace(V, 'V')
                    # a fixed-capacity vector of trivially copyable elements cannot fail when it copies a vector of its own type
                    thr2 = thr and not (fl == 'static' and elem == 'ElemTC' and ('r' + V) in m)
                    add('vec.%s.%s.%s.%s' % (short, fl, et, sz), V + '__' + m, pp, fnum, bpat % sz, sz, elem, throws_reachable=thr2)
                    us[-1]['defs']['VEC_N'] = vn
                for kind, opn in (('copy', 'op_assign__r' + V), ('move', 'op_assign__rr' + V)):
                    add('vec.self_assign_%s.%s.%s.%s' % (kind, fl, et, sz), 'self_assign', [p for p in ['C01', 'C02', 'C05', 'C06', 'C07'] if not (fl == 'static' and p == 'C06') and not (fl == 'std' and p == 'C05')],
                        fnum, bpat % sz, sz, elem, throws_reachable=False, extra_source='harness/self_assign.c',
                        proto='struct %s *self_assign(struct %s *self)' % (V, V), extra_reach=[V + '__' + opn])
                    us[-1]['defs'].update({'VEC_N': vn, 'VEC_T': 'struct ' + V, 'SELF_ASSIGN_FN(a, b)': V + '__' + opn + '(a, b)'})
    # ---- the same wrappers for amc::vector (N = 0) and FixedCapacityVector (N = 4), callee replaced by contract
    for elem in ('ElemNR', 'ElemTR', 'ElemTC'):
        et = ELEM_TAG[elem]
        for sz in ('u8',):
            for fl, fnum, b, V, vn in (('std', 2, 'StdVectorBase_E_A_%s' % sz, 'Vector_E_A_%s_Dyn_0' % sz, '0'), ('static', 3, 'StaticVectorBase_E_%s' % sz, 'Vector_E_X_%s_Exc_4' % sz, '4')):
                for m, props, rep in [('op_assign__rr' + V, ['C01', 'C02', 'C05', 'C06', 'C07'], [b + '__move_assign__r%s_%s' % (b, sz)]),
                                      ('shrink_to_fit__v', ['C01', 'C05', 'C06', 'C09', 'C18'], [b + '__shrink_impl__' + sz]),
                                      ('swap__r' + V, ['C01', 'C02', 'C05', 'C06', 'C07'], [b + '__swap_impl__r' + b])]:
                    pp = [p for p in props if not (fl == 'static' and p in ('C06', 'C18')) and not (fl == 'std' and p == 'C05')]
                    if fl == 'static':
                        rep = []        # the fixed-capacity base functions are small: inlined (their contracts have their own units fvb.*)
                    add('vecw.%s.%s.%s.%s' % (m.split('__')[0] + '_' + m.split('__')[1][:4], fl, et, sz), V + '__' + m, pp, fnum, b, sz, elem, replace=rep,
                        throws_reachable=(m.startswith('shrink') and fl == 'std'))
                    us[-1]['defs']['VEC_N'] = vn
    # ---- C15: amc:: emulations of the memory algorithms (configurations before C++17)
    for m in ['destroy_n__pE_u8', 'destroy_n__pE_i32', 'destroy__pE_pE', 'memory_details__uninitialized_copy_n_impl__pE_i32_pE_Default', 'memory_details__uninitialized_move_n_impl__pE_u8_pE_Default',
              'memory_details__uninitialized_relocate_n_impl__pE_u8_pE_Default',
              'uninitialized_value_construct_n__pE_u8_penable_if_is_trivial_iterator_traits_pE__value_type__value__type']:
        add('mem14.%s.NR' % m[:48], m, ['C15', 'C02', 'C09'], 2, 'StdVectorBase_E_A_u8', 'u8', 'ElemNR', throws_reachable=not (m.startswith('destroy') or '_move_n_' in m or '_relocate_n_' in m))
        us[-1]['cfg'] = 'main14dbg'
    # public _n wrappers and the [first, last) forms (C++14 extraction, pointer iterators)
    import re as _re
    for m, thr in [('uninitialized_copy_n__pE_u8_pE', True), ('uninitialized_move_n__pE_u8_pE', False), ('uninitialized_relocate_n__pE_u8_pE', False),
                   ('uninitialized_copy__pE_pE_pE__1f0c33', True), ('uninitialized_copy__pE_pE_pE__fc08c5', True), ('uninitialized_move__pE_pE_pE', False), ('uninitialized_relocate__pE_pE_pE', False),
                   ('uninitialized_value_construct__pE_pE_penable_if_is_trivial_iterator_traits_pE__value_type__value__type', True),
                   ('uninitialized_default_construct__pE_pE_penable_if_is_trivially_default_constructible_iterator_traits_pE__value_type__value__type', True)]:
        add('mem14.%s.NR' % _re.sub(r'\W', '', m), m, ['C15', 'C02', 'C09'], 2, 'StdVectorBase_E_A_u8', 'u8', 'ElemNR', throws_reachable=thr)
        us[-1]['cfg'] = 'main14dbg'
        if m.startswith(('uninitialized_move__', 'uninitialized_relocate__')):
            us[-1]['defs']['WITH_EXT_MEM'] = '1'
    for elem in ('ElemTR', 'ElemTC'):
        for m, thr in [('uninitialized_move__pE_pE_pE', False), ('uninitialized_relocate__pE_pE_pE', False),
                       ('uninitialized_value_construct__pE_pE_penable_if_is_trivial_iterator_traits_pE__value_type__value__type', True),
                       ('uninitialized_default_construct__pE_pE_penable_if_is_trivially_default_constructible_iterator_traits_pE__value_type__value__type', True)]:
            if elem == 'ElemTC' and not m.startswith('uninitialized_relocate'):
                continue        # trivially copyable: these forward to std::fill / memmove-based copies (not lowered as loops of the library)
            add('mem14.%s.%s' % (_re.sub(r'\W', '', m)[:60], ELEM_TAG[elem]), m, ['C15', 'C02', 'C09'], 2, 'StdVectorBase_E_A_u8', 'u8', elem, throws_reachable=thr)
            us[-1]['cfg'] = 'main14dbg'
            if m.startswith('uninitialized_move__'):
                us[-1]['defs']['WITH_EXT_MEM'] = '1'
    DEFN = 'uninitialized_default_construct_n__pE_u8_penable_if_is_trivially_default_constructible_iterator_traits_pE__value_type__value__type'
    for elem in ('ElemNR', 'ElemTR', 'ElemTC'):
        et = ELEM_TAG[elem]
        lst = [('destroy_at__pE_penable_if_is_array_E__value__type', False), ('relocate_at__pE_pE', False),
               ('memory_details__relocate_at_impl__pE_pE_' + ('Default' if elem == 'ElemNR' else 'MemMove'), False), (DEFN, elem != 'ElemTC')]
        if elem != 'ElemNR':
            lst.append(('memory_details__uninitialized_relocate_n_impl__pE_u8_pE_MemMove', False))
        for m, thr in lst:
            add('mem14.%s.%s' % (m.replace('memory_details__', '')[:40], et), m, ['C15', 'C02', 'C09'], 2, 'StdVectorBase_E_A_u8', 'u8', elem, throws_reachable=thr)
            us[-1]['cfg'] = 'main14dbg'
            cur = 'first' if elem == 'ElemTC' else 'current'
            us[-1]['defs'].update({'DEFCON_CUR': cur, 'DEFCON_CUR0': 'LE(%s)' % cur})
    # ---- C14: byte-wise relocation lemma on the real accessors, per base flavour (element category TR: the containers that claim the trait)
    for fl, (fnum, bpat, vpat) in FLAV.items():
        b = bpat % 'u8'
        add('lemma.relocate.%s.TR.u8' % fl, 'lemma_relocate', ['C14'], fnum, b, 'u8', 'ElemTR', throws_reachable=False,
            extra_source='harness/lemma_relocate.c', proto='void lemma_relocate(struct %s *a, struct %s *b)' % (b, b),
            extra_reach=[b + '__size__v_c', b + '__capacity__v_c', b + '__begin__v_c'])
        us[-1]['defs'].update({'LEMMA_SIZE(p)': b + '__size__v_c(p)', 'LEMMA_CAPACITY(p)': b + '__capacity__v_c(p)', 'LEMMA_BEGIN(p)': b + '__begin__v_c(p)'})
    # ---- C14, converse direction: no container claims the trait when one of its parts is not relocatable -- type-level facts evaluated by the
    #      real compiler on the real headers (harness/static_traits.cpp), one obligation per instantiation
    add('static.traits', 'harness', ['C14'], 1, svb('ElemNR', 'u8'), 'u8', 'ElemNR', throws_reachable=False, static_facts='harness/static_traits.cpp')
    # ---- C20, supporting static fact: the headers declare no writable static storage and no mutable member (read off clang's AST of the
    #      real headers, uninstantiated template patterns included); covers the const members that are not lowered
    add('static.shared_state', 'harness', ['C20'], 1, svb('ElemNR', 'u8'), 'u8', 'ElemNR', throws_reachable=False, static_facts='harness/static_shared_state.py')
    # ---- swap2 between flavours (C13): ordered pairs, same 8-bit size type in the quick tier, mixed 8/16-bit in the thorough tier
    FL3 = {'small': (1, 'SmallVectorBase_E_A_%s', 'VectorImpl_E_A_%s_t_Dyn'), 'std': (2, 'StdVectorBase_E_A_%s', 'VectorImpl_E_A_%s_f_Dyn'),
           'static': (3, 'StaticVectorBase_E_%s', 'VectorImpl_E_X_%s_t_Exc')}
    for elem in ('ElemNR', 'ElemTR', 'ElemTC'):
        et = ELEM_TAG[elem]
        for s1, s2, tier in (('u8', 'u8', 'quick'), ('u8', 'u16', 'thorough'), ('u16', 'u8', 'thorough')):
            if elem != 'ElemNR' and s1 != s2:
                continue
            for f1, (n1, b1, v1) in FL3.items():
                for f2, (n2, b2, v2) in FL3.items():
                    # mixed size types between two growing vectors are in the quick tier too (a size that fits only one side)
                    t2 = 'quick' if (s1 != s2 and f1 != 'static' and f2 != 'static') else tier
                    add('swap2.%s_%s.%s.%s_%s' % (f1, f2, et, s1, s2), (v1 % s1) + '__swap2__r' + (v2 % s2), ['C13', 'C01', 'C02', 'C06'], n1, b1 % s1, s1, elem, tier=t2)
                    us[-1]['throws_reachable'] = not (f1 == 'std' and f2 == 'std' and s1 == s2)
                    us[-1]['defs'].update({'FLAVOUR2': str(n2), 'BASE2_T': 'struct ' + (b2 % s2), 'KMAX2': SIZES[s2][1], 'S2_T': SIZES[s2][0]})
    # ---- FlatSet over amc::vector<E, A, size_type>: 8-bit size_type in the quick tier, the default 32-bit one in the thorough tier
    for fsz, tier in (('u8', 'quick'), ('u32', 'thorough')):
        FS = 'FlatSet_E_GhostCmp_A_Vector_E_A_%s_Dyn_0' % fsz
        for m, props in [('find__rE_c', ['C03', 'C19', 'C20']), ('contains__rE_c', ['C03', 'C19', 'C20']), ('count__rE_c', ['C03', 'C19', 'C20']),
                         ('lower_bound__rE_c', ['C03', 'C19', 'C20']), ('upper_bound__rE_c', ['C03', 'C19', 'C20']),
                         ('equal_range__rE_c', ['C03', 'C19', 'C20']),
                         ('insert__rE', ['C03', 'C02', 'C09', 'C12', 'C19']), ('insert__rrE', ['C03', 'C02', 'C09', 'C12', 'C19']),
                         ('insert__pE_rE', ['C03', 'C02', 'C09', 'C12', 'C19']), ('insert__pE_rrE', ['C03', 'C02', 'C09', 'C12', 'C19']),
                         ('erase__rE', ['C03', 'C02', 'C09', 'C19']), ('size__v_c', ['C03', 'C20']), ('empty__v_c', ['C03', 'C20']),
                         ('begin__v_c', ['C03', 'C20']), ('end__v_c', ['C03', 'C20']), ('clear__v', ['C03', 'C02']), ('extract__rE', ['C03', 'C02', 'C19']),
                         ('erase__pE', ['C03', 'C02', 'C09', 'C19']), ('erase__pE_pE', ['C03', 'C02', 'C09', 'C19']), ('extract__pE', ['C03', 'C02', 'C19']),
                         ('insert__rr%s__node_type' % FS, ['C03', 'C02', 'C09', 'C12', 'C19']), ('insert__pE_rr%s__node_type' % FS, ['C03', 'C02', 'C09', 'C12', 'C19']),
                         ('emplace__rri32', ['C03', 'C02', 'C09', 'C12', 'C19']), ('emplace_hint__pE_rri32', ['C03', 'C02', 'C09', 'C12', 'C19']),
                         ('steal_vector__v', ['C03', 'C02', 'C06', 'C07']), ('ctor__rr%s_rA' % FS, ['C03', 'C02', 'C06', 'C07']), ('ctor__r%s_rA' % FS, ['C03', 'C02', 'C06', 'C09']),
                         ('op_eq__r%s_c' % FS, ['C03', 'C20']), ('op_ne__r%s_c' % FS, ['C03', 'C20']),
                         ('swap__r' + FS, ['C03', 'C02', 'C06', 'C07']), ('ctor__v', ['C03', 'C02', 'C06']), ('ctor__rA', ['C03', 'C02', 'C06']), ('ctor__rGhostCmp_rA', ['C03', 'C02', 'C06']),
                         ('dtor__v', ['C02', 'C06']), ('reserve__' + fsz, ['C03', 'C07', 'C18']), ('shrink_to_fit__v', ['C03', 'C18']), ('capacity__v_c', ['C03', 'C20']),
                         ('max_size__v_c', ['C03', 'C20']), ('key_comp__v_c', ['C03', 'C20']), ('value_comp__v_c', ['C03', 'C20']),
                         ('cbegin__v_c', ['C03', 'C20']), ('cend__v_c', ['C03', 'C20']), ('data__v_c', ['C03', 'C20']), ('front__v_c', ['C03', 'C20']),
                         ('back__v_c', ['C03', 'C20']), ('op_index__%s_c' % fsz, ['C03', 'C20']), ('at__%s_c' % fsz, ['C03', 'C08', 'C20']),
                         ('op_lt__r%s_c' % FS, ['C03', 'C20']), ('op_le__r%s_c' % FS, ['C03', 'C20']), ('op_gt__r%s_c' % FS, ['C03', 'C20']),
                         ('op_ge__r%s_c' % FS, ['C03', 'C20']), ('rbegin__v_c', ['C03', 'C20']), ('rend__v_c', ['C03', 'C20']),
                         ('crbegin__v_c', ['C03', 'C20']), ('crend__v_c', ['C03', 'C20'])]:
            if m == 'ctor__v' and fsz == 'u8':
                continue        # the default constructor is instantiated for the default (32-bit) FlatSet only
            add('fs.%s.NR.%s' % (m.replace('__', '_').replace(FS, 'FS'), fsz), FS + '__' + m, props, 2, 'StdVectorBase_E_A_' + fsz, fsz, 'ElemNR', tier=tier,
                throws_reachable=m.startswith(('insert', 'reserve', 'shrink_to_fit')), timeout=(600 if fsz == 'u8' else 2400))
            if m == 'ctor__rGhostCmp_rA':
                us[-1]['defs']['FS_CTOR_HAS_CMP'] = '1'
            if m.startswith('op_'):
                us[-1]['defs']['FS_NE_RESULT'] = '1' if m.startswith('op_ne') else '0'
                if not m.startswith(('op_eq', 'op_ne')):
                    swapped = m.startswith(('op_gt', 'op_le'))
                    us[-1]['defs'].update({'FS_CMP_L': 'o' if swapped else 'self', 'FS_CMP_R': 'self' if swapped else 'o', 'WITH_EXT_CMP': '1',
                                           'CMP_NEG': '1' if m.startswith(('op_le', 'op_ge')) else '0'})
            if m.startswith(('rbegin', 'rend', 'crbegin', 'crend')):
                us[-1]['defs'].update({'ACC_IS_END': '1' if m.startswith(('rbegin', 'crbegin')) else '0'})
            if m.startswith(('begin', 'end', 'cbegin', 'cend', 'data', 'front', 'back')):
                us[-1]['defs'].update({'ACC_IS_END': '1' if m.startswith(('end', 'cend')) else '0', 'ACC_IS_BACK': '1' if m.startswith('back') else '0'})
            if m.startswith('at__'):
                us[-1]['throws_reachable'] = True
            if m.startswith('ctor__r' + FS):
                us[-1]['throws_reachable'] = True
            us[-1]['cfg'] = 'sets17'
            us[-1]['defs']['WITH_SETS'] = '1'
            us[-1]['defs']['FS_T'] = 'struct ' + FS
            if m.startswith(('insert__pE', 'emplace_hint')):
                us[-1]['cases'] = ['g_has && HINT_A', 'g_has && !HINT_A', '!g_has && HINT_A']
            if m.startswith('emplace'):
                us[-1]['defs']['KEY_FLOATING'] = '1'
                us[-1]['throws_reachable'] = True
    # ---- SmallSet<E, 4, GhostCmp, A, SetType>: inline FixedCapacityVector (FL_STATIC, u8) + abstract set (SetSpec)
    SS = 'SmallSet_E_4_GhostCmp_A_FlatSet_E_GhostCmp_A_Vector_E_A_u32_Dyn_0'
    FF = SS + '___FindFunctor_ElemNR'
    for m, props, rk in [('find__rE_c', ['C04', 'C11', 'C19', 'C20'], 1), ('contains__rE_c', ['C04', 'C19', 'C20'], 2), ('count__rE_c', ['C04', 'C19', 'C20'], 2),
                         ('size__v_c', ['C04', 'C20'], 3), ('empty__v_c', ['C04', 'C20'], 4), ('begin__v_c', ['C04', 'C11', 'C20'], 5), ('end__v_c', ['C04', 'C11', 'C20'], 6),
                         ('insert__rE', ['C04', 'C05', 'C11', 'C02', 'C09'], 0), ('insert__rrE', ['C04', 'C05', 'C11', 'C02', 'C09'], 0),
                         ('erase__rE', ['C04', 'C11', 'C02'], 0), ('erase__pE_penable_if_is_same_pE_pE__value__type', ['C04', 'C11', 'C02'], 0),
                         ('clear__v', ['C04', 'C02'], 0), ('swap__r' + SS, ['C04', 'C05', 'C02'], 0),
                         ('insert__pE_rE', ['C04', 'C05', 'C11', 'C02', 'C09'], 0), ('insert__pE_rrE', ['C04', 'C05', 'C11', 'C02', 'C09'], 0),
                         ('erase__pE_pE_penable_if_is_same_pE_pE__value__type', ['C04', 'C11', 'C02'], 0),
                         ('extract__rE', ['C04', 'C11', 'C02'], 0), ('extract__pE', ['C04', 'C11', 'C02'], 0),
                         ('insert__rr%s__node_type' % SS, ['C04', 'C05', 'C11', 'C02', 'C09'], 0), ('insert__pE_rr%s__node_type' % SS, ['C04', 'C05', 'C11', 'C02', 'C09'], 0),
                         ('emplace__rri32', ['C04', 'C05', 'C11', 'C02', 'C09'], 0), ('emplace_hint__pE_rri32', ['C04', 'C05', 'C11', 'C02', 'C09'], 0)]:
        short = m.split('__')[0] + ('_' + m.split('__')[1].replace(SS, 'SS')[:9] if m.startswith(('insert', 'erase', 'extract', 'emplace')) else '')
        add('ss.%s.NR' % short, SS + '__' + m, props, 3, 'StaticVectorBase_E_u8', 'u8', 'ElemNR',
            throws_reachable=m.startswith('insert'))
        us[-1]['cfg'] = 'sets17'
        us[-1]['extra_reach'] = [FF + '__op_call__rE_c']
        us[-1]['defs'].update({'WITH_SETS': '1', 'SS_T': 'struct ' + SS, 'SS_N': '4', 'RESULT_KIND': str(rk), 'FINDFUNCTOR_T': 'struct ' + FF,
                               'FINDFUNCTOR_CALL(fp, e)': FF + '__op_call__rE_c(fp, e)',
                               'SETNODE_T': 'struct FlatSet_E_GhostCmp_A_Vector_E_A_u32_Dyn_0__node_type'})
        if m.startswith('emplace'):
            us[-1]['defs'].update({'KEY_FLOATING': '1', 'KEY_AT_END': '1'})
            us[-1]['throws_reachable'] = True
    # ---- BOUNDED stand-ins (concrete L0, loops unwound up to 'bounded'): merge and bulk paths of the sets.  Never counted as proved.
    FS8 = 'FlatSet_E_GhostCmp_A_Vector_E_A_u8_Dyn_0'
    FS32 = 'FlatSet_E_GhostCmp_A_Vector_E_A_u32_Dyn_0'
    FS32o = 'FlatSet_E_GhostCmp2_A_Vector_E_A_u32_Dyn_0'
    def bnd(uid, glue, reach, props, extra_defs, bound=6, tier='quick', vimpl='VectorImpl_E_A_u8_f_Dyn'):
        add(uid, glue, props, 2, 'StdVectorBase_E_A_u8', 'u8', 'ElemNR', tier=tier, throws_reachable=False,
            extra_source=['harness/bounded_vec_stubs.c', 'harness/bounded_sets.c'],
            proto='void %s(void)' % glue, extra_reach=reach, bounded=bound, timeout=1800)
        us[-1]['cfg'] = 'sets17'
        # callees replaced by their specification (harness/bounded_vec_stubs.c): the vector operations, proved without bound in the op.* units
        stubs = {'BV_INSERT_RR': vimpl + '__insert__pE_rrE', 'BV_PUSH_BACK_RR': vimpl + '__push_back__rrE', 'BV_ERASE': vimpl + '__erase__pE', 'BV_ERASE_RANGE': vimpl + '__erase__pE_pE',
                 'BV_INSERT_MOVE_RANGE': vimpl + '__insert__pE_move_iterator_pE_move_iterator_pE', 'BV_INSERT_RANGE': vimpl + '__insert__pE_pE_pE'}
        us[-1]['stubbed'] = list(stubs.values())
        us[-1]['defs'] = dict(extra_defs); us[-1]['defs'].update(stubs)
        us[-1]['defs'].update({'WITH_SETS': '1', 'BN': '2', 'BDOM': '4', 'L0C_MAXN': '5', 'BVIMPL_T': 'struct ' + vimpl})
        us[-1]['bound_text'] = 'every pre-state with at most 2 elements per set / range, ranks in [0,4), capacities up to size+1, the four comparator flavours (ascending, descending, coarse ascending, coarse descending)'
    bnd('bnd.fs.merge.u8', 'bs_flatset_merge', [FS8 + '__merge__r' + FS8], ['C03', 'C02', 'C06'],
        {'BFS_T': 'struct ' + FS8, 'BVEC_T': 'struct StdVectorBase_E_A_u8', 'BFS_MERGE(a, b)': '%s__merge__r%s(a, b)' % (FS8, FS8)})
    bnd('bnd.fs.merge_other.u32', 'bs_flatset_merge_other', [FS32 + '__merge__r' + FS32o], ['C03', 'C02'], vimpl='VectorImpl_E_A_u32_f_Dyn', extra_defs=
        {'BFS_T': 'struct ' + FS32, 'BFS_OTHER_T': 'struct ' + FS32o, 'BVEC_T': 'struct StdVectorBase_E_A_u32', 'BFS_MERGE_OTHER(a, b)': '%s__merge__r%s(a, b)' % (FS32, FS32o),
         'UNIQUE_PRED_T': 'struct %s__ValueEqui' % FS32, 'UNIQUE_PRED_CALL(fp, a, b)': '%s__ValueEqui__op_call__rE_rE_c(fp, a, b)' % FS32})
    us[-1]['extra_reach'].append(FS32 + '__ValueEqui__op_call__rE_rE_c')
    UQ = {'UNIQUE_PRED_T': 'struct %s__ValueEqui' % FS8, 'UNIQUE_PRED_CALL(fp, a, b)': '%s__ValueEqui__op_call__rE_rE_c(fp, a, b)' % FS8}
    bnd('bnd.fs.insert_range.u8', 'bs_flatset_insert_range', [FS8 + '__insert__pE_pE', FS8 + '__ValueEqui__op_call__rE_rE_c'], ['C03', 'C02', 'C20'],
        dict(UQ, **{'BFS_T': 'struct ' + FS8, 'BVEC_T': 'struct StdVectorBase_E_A_u8', 'BFS_INSERT_RANGE(s, f, l)': '%s__insert__pE_pE(s, f, l)' % FS8}))
    bnd('bnd.fs.from_vector.u8', 'bs_flatset_from_vector', [FS8 + '__ctor__rrVector_E_A_u8_Dyn_0_rGhostCmp_rA', FS8 + '__ValueEqui__op_call__rE_rE_c'], ['C03', 'C02'],
        dict(UQ, **{'BFS_T': 'struct ' + FS8, 'BVEC_T': 'struct StdVectorBase_E_A_u8', 'BFS_VECTOR_T': 'struct Vector_E_A_u8_Dyn_0',
                    'BFS_FROM_VECTOR(s, v, c)': '{ struct A bs_al = {0}; %s__ctor__rrVector_E_A_u8_Dyn_0_rGhostCmp_rA(s, v, c, &bs_al); }' % FS8}))
    SSn = 'SmallSet_E_4_GhostCmp_A_FlatSet_E_GhostCmp_A_Vector_E_A_u32_Dyn_0'
    FFn = SSn + '___FindFunctor_ElemNR'
    for la in (0, 1):
        for lb in (0, 1):
          for lo, hi in (((1, 2), (3, 3)) if la else ((0, 2), (3, 3), (4, 4))):
            for tokv, tname in ((0, 'asc'), (1, 'desc')):      # (a coarse comparator needs 8 ranks to fill the inline part: beyond what the solver handles here)
                bnd('bnd.ss.merge.%s%d-%d_%s.%s' % ('large' if la else 'inline', lo, hi, 'large' if lb else 'inline', tname), 'bs_smallset_merge',
                    [SSn + '__merge__r' + SSn, FFn + '__op_call__rE_c'], ['C04', 'C05', 'C02'], tier=('quick' if tokv == 0 else 'thorough'), vimpl='VectorImpl_E_X_u8_t_Unc', bound=(10 if tokv == 2 else 8), extra_defs=
                    {'BSS_T': 'struct ' + SSn, 'BSS_N': '4', 'BVEC_T': 'struct StdVectorBase_E_A_u32', 'BSS_MERGE(a, b)': '%s__merge__r%s(a, b)' % (SSn, SSn),
                     'FINDFUNCTOR_T': 'struct ' + FFn, 'FINDFUNCTOR_CALL(fp, e)': FFn + '__op_call__rE_c(fp, e)', 'BSS_LA': str(la), 'BSS_LB': str(lb), 'BSS_TOK': str(tokv), 'BSS_NA_LO': str(lo), 'BSS_NA_HI': str(hi)})
                us[-1]['stubbed'] = []      # the inline part is a FixedCapacityVector: its real code is used
                for k in list(us[-1]['defs']):
                    if k.startswith('BV_'):
                        del us[-1]['defs'][k]
                us[-1]['defs'].update({'BDOM': '8' if tokv == 2 else '6', 'L0C_MAXN': '5', 'CS_MAX': '7'})
                us[-1]['bound_text'] = 'receiver: inline with at most 4 elements or large with 1..3; argument: inline with at most 2 or large with 1..2; ranks in [0,6); ascending (quick) and descending (thorough) order'
    for sz in ('u8',):
        add('SafeNextCapacity.%s' % sz, 'SafeNextCapacity__%s_u64_b' % sz, ['C08', 'C18'], 1, svb('ElemNR', sz), sz, 'ElemNR')
    add('ExceptionGrowingPolicy.Check', 'Exc__Check__u64_u64', ['C08'], 1, svb('ElemNR', 'u8'), 'u8', 'ElemNR')
    # ---- C16: the same contracts re-discharged on the extraction of other configurations
    #      main14dbg = C++14 (amc:: emulations of the memory algorithms instead of std::), standard API only, assertions enabled
    #      main20    = C++20 (std::construct_at ...), extras on, NDEBUG
    extra = []
    for u in us:
        if u['id'].startswith('op.') and u['elem'] == 'ElemNR' and u['cfg'] == 'main17':
            name = u['id'].split('.')[1]
            for cfg, tier in (('main14dbg', 'quick' if name in ('push_back_rE', 'insert_pE_rE', 'erase_pE_pE', 'resize_u8', 'emplace_back_rE', 'clear_v') else 'thorough'),
                              ('main20', 'quick' if name in ('push_back_rE', 'insert_pE_rrE', 'erase_pE') else 'thorough'),
                              ('main11dbg', 'quick' if name in ('push_back_rrE', 'insert_pE_u8_rE', 'erase_pE', 'assign_u8_rE', 'emplace_pE_rE') else 'thorough')):
                if cfg == 'main20' and name.startswith(('op_lt', 'op_le', 'op_gt', 'op_ge', 'op_ne')):
                    continue            # C++20: the relational operators are synthesised from operator<=> (not lowered: std::lexicographical_compare_three_way)
                if cfg in ('main14dbg', 'main11dbg') and name.startswith(('append', 'pop_back_val')):
                    continue            # append is part of the non-standard extras: not public in this configuration
                v = dict(u); v['defs'] = dict(u['defs'])
                v['id'] = u['id'].replace('op.', 'cfg.%s.' % cfg, 1); v['cfg'] = cfg; v['props'] = ['C16']; v['tier'] = tier
                extra.append(v)
    us.extend(extra)
    # inheritance chains of the public vector types (most derived first): an operation unit whose target lives in a base class is
    # 'hidden' when a more derived class declares the same member (checked at unit build time, tools/pipeline.py)
    for u in us:
        t = u['target']
        for sz in ('u8', 'u16'):
            chains = [['Vector_E_A_%s_Dyn_4' % sz, 'VectorWithInplaceStorage_E_A_%s_Dyn_4' % sz, 'VectorImpl_E_A_%s_t_Dyn' % sz, 'VectorDestr_E_A_%s_t_Dyn_t' % sz, 'DynamicVector_E_A_%s_t' % sz, 'SmallVectorBase_E_A_%s' % sz],
                      ['Vector_E_A_%s_Dyn_0' % sz, 'VectorWithInplaceStorage_E_A_%s_Dyn_0' % sz, 'VectorImpl_E_A_%s_f_Dyn' % sz, 'VectorDestr_E_A_%s_f_Dyn_t' % sz, 'DynamicVector_E_A_%s_f' % sz, 'StdVectorBase_E_A_%s' % sz],
                      ['Vector_E_X_%s_Exc_4' % sz, 'VectorWithInplaceStorage_E_X_%s_Exc_4' % sz, 'VectorImpl_E_X_%s_t_Exc' % sz, 'VectorDestr_E_X_%s_t_Exc_t' % sz, 'StaticVector_E_%s_Exc' % sz, 'StaticVectorBase_E_%s' % sz]]
            for ch in chains:
                for i, cls in enumerate(ch):
                    if t.startswith(cls + '__') and i > 0 and u['id'].startswith(('op.', 'cfg.', 'swap2.')):
                        u['hidden_by'] = ch[:i]
    return us
