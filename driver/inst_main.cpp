#include "ghost_types.hpp"
#include <amc/vector.hpp>
#include <amc/smallvector.hpp>
#include <amc/fixedcapacityvector.hpp>
#include <amc/flatset.hpp>
#if __cplusplus >= 201703L
#include <amc/smallset.hpp>
#endif

using namespace amc;
using namespace amc::vec;

#define INST_ELEM(E, S) \
  template class amc::vec::StaticVectorBase<E, S>; \
  template class amc::vec::StdVectorBase<E, amc::allocator<E>, S>; \
  template class amc::vec::SmallVectorBase<E, amc::allocator<E>, S>; \
  template class amc::vec::StaticVector<E, S, ExceptionGrowingPolicy>; \
  template class amc::vec::DynamicVector<E, amc::allocator<E>, S, true>; \
  template class amc::vec::DynamicVector<E, amc::allocator<E>, S, false>; \
  template class amc::vec::VectorImpl<E, amc::allocator<E>, S, true, DynamicGrowingPolicy>; \
  template class amc::vec::VectorImpl<E, amc::allocator<E>, S, false, DynamicGrowingPolicy>; \
  template class amc::vec::VectorImpl<E, EmptyAlloc, S, true, ExceptionGrowingPolicy>; \
  template class amc::Vector<E, amc::allocator<E>, S, DynamicGrowingPolicy, 4>; \
  template class amc::Vector<E, amc::allocator<E>, S, DynamicGrowingPolicy, 0>; \
  template class amc::Vector<E, EmptyAlloc, S, ExceptionGrowingPolicy, 4>;

INST_ELEM(ElemNR, uint8_t)
INST_ELEM(ElemTR, uint8_t)
INST_ELEM(ElemTC, uint8_t)

// member templates: instantiate the argument shapes that are put under contract
template <class V, class E>
void use_member_templates(V &v, const E &e, E &&r) {
  v.emplace_back(e);
  v.emplace_back(std::move(r));
  v.emplace(v.begin(), e);
  v.emplace(v.begin(), std::move(r));
}
template <class V>
void use_int_emplace(V &v) {
  v.emplace_back(3);
  v.emplace(v.begin(), 3);
}
template <class V>
void use_lifetime() {
  V a;
  V b(a);
  V c(std::move(a));
  b = c;
  b = std::move(c);
}
#define USE_ELEM(E, S) \
  template void use_member_templates<amc::Vector<E, amc::allocator<E>, S, DynamicGrowingPolicy, 4>, E>(amc::Vector<E, amc::allocator<E>, S, DynamicGrowingPolicy, 4> &, const E &, E &&); \
  template void use_member_templates<amc::Vector<E, amc::allocator<E>, S, DynamicGrowingPolicy, 0>, E>(amc::Vector<E, amc::allocator<E>, S, DynamicGrowingPolicy, 0> &, const E &, E &&); \
  template void use_member_templates<amc::Vector<E, EmptyAlloc, S, ExceptionGrowingPolicy, 4>, E>(amc::Vector<E, EmptyAlloc, S, ExceptionGrowingPolicy, 4> &, const E &, E &&); \
  template void use_lifetime<amc::Vector<E, amc::allocator<E>, S, DynamicGrowingPolicy, 4> >(); \
  template void use_lifetime<amc::Vector<E, amc::allocator<E>, S, DynamicGrowingPolicy, 0> >(); \
  template void use_lifetime<amc::Vector<E, EmptyAlloc, S, ExceptionGrowingPolicy, 4> >();
USE_ELEM(ElemNR, uint8_t)
USE_ELEM(ElemTR, uint8_t)
USE_ELEM(ElemTC, uint8_t)
#define USE_INT(E, S) \
  template void use_int_emplace<amc::Vector<E, amc::allocator<E>, S, DynamicGrowingPolicy, 4> >(amc::Vector<E, amc::allocator<E>, S, DynamicGrowingPolicy, 4> &); \
  template void use_int_emplace<amc::Vector<E, amc::allocator<E>, S, DynamicGrowingPolicy, 0> >(amc::Vector<E, amc::allocator<E>, S, DynamicGrowingPolicy, 0> &); \
  template void use_int_emplace<amc::Vector<E, EmptyAlloc, S, ExceptionGrowingPolicy, 4> >(amc::Vector<E, EmptyAlloc, S, ExceptionGrowingPolicy, 4> &);
USE_INT(ElemNR, uint8_t)
USE_INT(ElemTR, uint8_t)


// C15: the memory algorithms called directly with pointer iterators (in configurations before C++17 these are amc's own emulations)
template <class E>
void use_memory_algos(E *f, E *l, E *d, unsigned char n) {
  (void)amc::uninitialized_default_construct_n(d, n);
  amc::uninitialized_default_construct(f, l);
  amc::uninitialized_value_construct(f, l);
  (void)amc::uninitialized_value_construct_n(d, n);
  (void)amc::uninitialized_copy(f, l, d);
  (void)amc::uninitialized_copy_n(f, n, d);
  (void)amc::uninitialized_move(f, l, d);
  (void)amc::uninitialized_move_n(f, n, d);
  (void)amc::uninitialized_relocate(f, l, d);
  (void)amc::uninitialized_relocate_n(f, n, d);
  (void)amc::relocate_at(f, d);
  amc::destroy_at(f);
  amc::destroy(f, l);
  (void)amc::destroy_n(f, n);
}
template void use_memory_algos<ElemNR>(ElemNR *, ElemNR *, ElemNR *, unsigned char);
template void use_memory_algos<ElemTR>(ElemTR *, ElemTR *, ElemTR *, unsigned char);
template void use_memory_algos<ElemTC>(ElemTC *, ElemTC *, ElemTC *, unsigned char);

#ifdef AMC_NONSTD_FEATURES
// swap2 between flavours and size types
template <class A, class B>
void use_swap2(A &a, B &b) { a.swap2(b); }
#define SW(E, S1, S2) \
  template void use_swap2(amc::Vector<E, amc::allocator<E>, S1, DynamicGrowingPolicy, 4> &, amc::Vector<E, amc::allocator<E>, S2, DynamicGrowingPolicy, 4> &); \
  template void use_swap2(amc::Vector<E, amc::allocator<E>, S1, DynamicGrowingPolicy, 4> &, amc::Vector<E, amc::allocator<E>, S2, DynamicGrowingPolicy, 0> &); \
  template void use_swap2(amc::Vector<E, amc::allocator<E>, S1, DynamicGrowingPolicy, 4> &, amc::Vector<E, EmptyAlloc, S2, ExceptionGrowingPolicy, 4> &); \
  template void use_swap2(amc::Vector<E, amc::allocator<E>, S1, DynamicGrowingPolicy, 0> &, amc::Vector<E, amc::allocator<E>, S2, DynamicGrowingPolicy, 4> &); \
  template void use_swap2(amc::Vector<E, amc::allocator<E>, S1, DynamicGrowingPolicy, 0> &, amc::Vector<E, amc::allocator<E>, S2, DynamicGrowingPolicy, 0> &); \
  template void use_swap2(amc::Vector<E, amc::allocator<E>, S1, DynamicGrowingPolicy, 0> &, amc::Vector<E, EmptyAlloc, S2, ExceptionGrowingPolicy, 4> &); \
  template void use_swap2(amc::Vector<E, EmptyAlloc, S1, ExceptionGrowingPolicy, 4> &, amc::Vector<E, amc::allocator<E>, S2, DynamicGrowingPolicy, 4> &); \
  template void use_swap2(amc::Vector<E, EmptyAlloc, S1, ExceptionGrowingPolicy, 4> &, amc::Vector<E, amc::allocator<E>, S2, DynamicGrowingPolicy, 0> &); \
  template void use_swap2(amc::Vector<E, EmptyAlloc, S1, ExceptionGrowingPolicy, 4> &, amc::Vector<E, EmptyAlloc, S2, ExceptionGrowingPolicy, 4> &);
INST_ELEM(ElemNR, uint16_t)
INST_ELEM(ElemTR, uint16_t)
SW(ElemNR, uint8_t, uint8_t)
SW(ElemTR, uint8_t, uint8_t)
SW(ElemTC, uint8_t, uint8_t)
SW(ElemNR, uint8_t, uint16_t)
SW(ElemNR, uint16_t, uint8_t)
#endif
