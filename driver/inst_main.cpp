#include "ghost_types.hpp"
#include <amc/vector.hpp>
#include <amc/smallvector.hpp>
#include <amc/fixedcapacityvector.hpp>
#include <amc/flatset.hpp>
#include <amc/smallset.hpp>

using namespace amc;
using namespace amc::vec;

#define INST_ELEM(E, S) \
  template class amc::vec::StaticVectorBase<E, S>; \
  template class amc::vec::StdVectorBase<E, amc::allocator<E>, S>; \
  template class amc::vec::SmallVectorBase<E, amc::allocator<E>, S>; \
  template class amc::vec::StaticVector<E, S, ExceptionGrowingPolicy>; \
  template class amc::vec::DynamicVector<E, amc::allocator<E>, S, true>; \
  template class amc::vec::DynamicVector<E, amc::allocator<E>, S, false>; \
  template class amc::vec::VectorImpl<E, amc::allocator<E>, S, true, DynamicGrowingPolicy>; \
  template class amc::vec::VectorImpl<E, amc::allocator<E>, S, false, DynamicGrowingPolicy>; \
  template class amc::vec::VectorImpl<E, EmptyAlloc, S, true, ExceptionGrowingPolicy>; \
  template class amc::Vector<E, amc::allocator<E>, S, DynamicGrowingPolicy, 4>; \
  template class amc::Vector<E, amc::allocator<E>, S, DynamicGrowingPolicy, 0>; \
  template class amc::Vector<E, EmptyAlloc, S, ExceptionGrowingPolicy, 4>;

INST_ELEM(ElemNR, uint8_t)
INST_ELEM(ElemTR, uint8_t)
INST_ELEM(ElemTC, uint8_t)
