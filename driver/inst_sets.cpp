// instantiation driver for FlatSet / SmallSet
#include "ghost_types.hpp"
#include <amc/vector.hpp>
#include <amc/smallvector.hpp>
#include <amc/fixedcapacityvector.hpp>
#include <amc/flatset.hpp>
#include <amc/smallset.hpp>

using namespace amc;
using namespace amc::vec;

using VecNR = amc::vector<ElemNR>;
template class amc::vec::StdVectorBase<ElemNR, amc::allocator<ElemNR>, uint32_t>;
template class amc::vec::DynamicVector<ElemNR, amc::allocator<ElemNR>, uint32_t, false>;
template class amc::vec::VectorImpl<ElemNR, amc::allocator<ElemNR>, uint32_t, false, DynamicGrowingPolicy>;
template class amc::Vector<ElemNR, amc::allocator<ElemNR>, uint32_t, DynamicGrowingPolicy, 0>;
template class amc::FlatSet<ElemNR, GhostCmp>;

// same set over a vector with an 8-bit size_type (small words: the quick tier)
using Vec8 = amc::vector<ElemNR, amc::allocator<ElemNR>, uint8_t>;
template class amc::vec::StdVectorBase<ElemNR, amc::allocator<ElemNR>, uint8_t>;
template class amc::vec::DynamicVector<ElemNR, amc::allocator<ElemNR>, uint8_t, false>;
template class amc::vec::VectorImpl<ElemNR, amc::allocator<ElemNR>, uint8_t, false, DynamicGrowingPolicy>;
template class amc::Vector<ElemNR, amc::allocator<ElemNR>, uint8_t, DynamicGrowingPolicy, 0>;
// (spelled out: the type name written here is the one the compiler prints for the injected class name)
template class amc::FlatSet<ElemNR, GhostCmp, amc::allocator<ElemNR>, amc::Vector<ElemNR, amc::allocator<ElemNR>, uint8_t, amc::vec::DynamicGrowingPolicy, 0>>;

using FS = amc::FlatSet<ElemNR, GhostCmp>;
void use_flatset(FS &s, FS &o, const ElemNR &e, ElemNR &&r, const ElemNR *f, const ElemNR *l, FS::node_type &&nh, amc::FlatSet<ElemNR, GhostCmp2> &o2) {
  s.insert(f, l);
  FS t(f, l);
  s.emplace(3);
  s.emplace_hint(s.begin(), 3);
  s.merge(o);
  s.merge(o2);
  (void)e; (void)r; (void)nh;
}

using FS8 = amc::FlatSet<ElemNR, GhostCmp, amc::allocator<ElemNR>, amc::Vector<ElemNR, amc::allocator<ElemNR>, uint8_t, amc::vec::DynamicGrowingPolicy, 0>>;
void use_flatset8(FS8 &s) {
  s.emplace(3);
  s.emplace_hint(s.begin(), 3);
}

// SmallSet over a FixedCapacityVector (inline) and a std::set / FlatSet (large)
using SS = amc::SmallSet<ElemNR, 4, GhostCmp, amc::allocator<ElemNR>, FS>;
void use_smallset(SS &s, SS &o, const ElemNR &e, ElemNR &&r, const ElemNR *f, const ElemNR *l) {
  SS a;
  s.insert(e);
  s.insert(std::move(r));
  s.insert(s.begin(), e);
  s.insert(f, l);
  s.emplace(3);
  s.emplace_hint(s.begin(), 3);
  (void)s.find(e); (void)s.contains(e); (void)s.count(e);
  s.erase(e);
  s.erase(s.begin());
  s.erase(s.begin(), s.end());
  s.swap(o);
  s.clear();
  (void)s.size(); (void)s.empty(); (void)s.begin(); (void)s.end();
  s.merge(o);
  auto n = s.extract(e);
  s.insert(std::move(n));
  s.insert(s.begin(), std::move(r));
  auto n2 = s.extract(s.begin());
  s.insert(s.begin(), std::move(n2));
}
