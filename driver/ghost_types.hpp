// Ghost element / comparator / allocator types used by the instantiation drivers.
// Only declarations: bodies are never needed (clang -fsyntax-only), the lowering maps every special member to an L0
// primitive.
#pragma once
#include <cstddef>
#include <cstdint>
#include <type_traits>
#include <memory>

// trivially copyable
struct ElemTC {
  int v;
};
bool operator==(const ElemTC &, const ElemTC &);
bool operator<(const ElemTC &, const ElemTC &);

// non trivial, declared trivially relocatable
struct ElemTR {
  using trivially_relocatable = std::true_type;
  ElemTR();
  explicit ElemTR(int);
  ElemTR(const ElemTR &);
  ElemTR(ElemTR &&) noexcept;
  ElemTR &operator=(const ElemTR &);
  ElemTR &operator=(ElemTR &&) noexcept;
  ~ElemTR();
  long x;
};
bool operator==(const ElemTR &, const ElemTR &);
bool operator<(const ElemTR &, const ElemTR &);

// non relocatable (self-referencing style), noexcept move, throwing copy
struct ElemNR {
  ElemNR();
  explicit ElemNR(int);
  ElemNR(const ElemNR &);
  ElemNR(ElemNR &&) noexcept;
  ElemNR &operator=(const ElemNR &);
  ElemNR &operator=(ElemNR &&) noexcept;
  ~ElemNR();
  long x;
};
bool operator==(const ElemNR &, const ElemNR &);
bool operator<(const ElemNR &, const ElemNR &);
void swap(ElemNR &, ElemNR &) noexcept;
void swap(ElemTR &, ElemTR &) noexcept;

#if __cplusplus >= 202002L
#include <compare>
std::strong_ordering operator<=>(const ElemTC &, const ElemTC &);
std::strong_ordering operator<=>(const ElemTR &, const ElemTR &);
std::strong_ordering operator<=>(const ElemNR &, const ElemNR &);
#endif

// stateful comparator with a coarse order
struct GhostCmp {
  int token;
  bool operator()(const ElemNR &, const ElemNR &) const;
  bool operator()(const ElemTR &, const ElemTR &) const;
  bool operator()(const ElemTC &, const ElemTC &) const;
};
struct GhostCmp2 {
  int token;
  bool operator()(const ElemNR &, const ElemNR &) const;
};

// std-like allocator without reallocate
template <class T>
struct GhostStdAlloc {
  using value_type = T;
  using size_type = std::size_t;
  using difference_type = std::ptrdiff_t;
  using pointer = T *;
  using const_pointer = const T *;
  GhostStdAlloc() noexcept;
  GhostStdAlloc(const GhostStdAlloc &) noexcept;
  template <class U>
  GhostStdAlloc(const GhostStdAlloc<U> &) noexcept;
  T *allocate(std::size_t n);
  void deallocate(T *p, std::size_t n);
  template <class U>
  struct rebind {
    using other = GhostStdAlloc<U>;
  };
  bool operator==(const GhostStdAlloc &) const noexcept;
  bool operator!=(const GhostStdAlloc &) const noexcept;
};
