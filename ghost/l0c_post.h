/* CONCRETE L0 (bounded stand-ins only), part 2: primitives whose signatures mention lowered struct types.  Included after the
 * struct definitions, instead of the ghost versions of l0_post.h / l0_sets.h / l0_aset.h. */
#ifndef L0C_POST_H
#define L0C_POST_H
/* the comparator object: bit 0 of its token = descending order, bit 1 = coarse order (ranks 2k and 2k+1 are equivalent) */
extern int g_set_cmp_token;     /* token of the comparator the set under check was constructed with */
static inline _Bool l0c_lt(int token, const E *a, const E *b) {
  L0_assert(c_alive(a) && c_alive(b), "C02: compared elements are alive and not moved-from");
  int64_t ka = (token & 2) ? (RK(a) >> 1) : RK(a), kb = (token & 2) ? (RK(b) >> 1) : RK(b);
  g_ncmp++;
  return (token & 1) ? ka > kb : ka < kb;
}
#ifdef HAVE_GhostCmp
static inline _Bool L0_GhostCmp__call(const struct GhostCmp *c, const E *a, const E *b) { return l0c_lt(c->token, a, b); }
static inline E *L0_lower_bound(const E *f, const E *l, const E *v, struct GhostCmp c) {
  uint64_t n = L0_COUNT(L0_PDIFF(l, f)), i = 0;
  for (; i < n; i++) if (!l0c_lt(c.token, f + i, v)) break;
  return (E *)L0_PADD(f, +, i);
}
static inline E *L0_upper_bound(const E *f, const E *l, const E *v, struct GhostCmp c) {
  uint64_t n = L0_COUNT(L0_PDIFF(l, f)), i = 0;
  for (; i < n; i++) if (l0c_lt(c.token, v, f + i)) break;
  return (E *)L0_PADD(f, +, i);
}
/* std::sort: insertion sort on the payloads (any permutation that sorts is a legal outcome of std::sort) */
static inline void L0_sort(E *f, E *l, struct GhostCmp c) {
  uint64_t n = L0_COUNT(L0_PDIFF(l, f));
  for (uint64_t i = 1; i < n; i++)
    for (uint64_t j = i; j > 0 && l0c_lt(c.token, f + j, f + j - 1); j--) { int64_t t = RK(f + j); RK(f + j) = RK(f + j - 1); RK(f + j - 1) = t; }
}
/* std::inplace_merge: stable -- an element of the second range is placed after the equivalent elements of the first */
static inline void L0_inplace_merge(E *f, E *m, E *l, struct GhostCmp c) {
  uint64_t n = L0_COUNT(L0_PDIFF(l, f)), k = L0_COUNT(L0_PDIFF(m, f));
  for (uint64_t i = k; i < n; i++)
    for (uint64_t j = i; j > 0 && l0c_lt(c.token, f + j, f + j - 1); j--) { int64_t t = RK(f + j); RK(f + j) = RK(f + j - 1); RK(f + j - 1) = t; }
}
#endif
#ifdef HAVE_GhostCmp2
static inline _Bool L0_GhostCmp2__call(const struct GhostCmp2 *c, const E *a, const E *b) { return l0c_lt(c->token, a, b); }
#endif
#ifdef UNIQUE_PRED_T
/* std::unique with the set's equivalence functor (the REAL lowered functor is called) */
static inline E *L0_unique(E *f, E *l, UNIQUE_PRED_T pred) {
  uint64_t n = L0_COUNT(L0_PDIFF(l, f));
  if (n == 0) return l;
  uint64_t r = 0;
  for (uint64_t i = 1; i < n; i++) {
    if (!UNIQUE_PRED_CALL(&pred, f + r, f + i)) { r++; if (r != i) L0_E_move_assign(f + r, f + i); }
  }
  return f + r + 1;
}
#endif
#ifdef HAVE_pair_pE_pE
static inline struct pair_pE_pE L0_uninitialized_move_n(E *f, int64_t cnt, E *d) { struct pair_pE_pE r; r.second = l0_uninit_move_n(f, cnt, d); r.first = L0_PADD(f, +, L0_COUNT(cnt)); return r; }
#endif
#ifdef HAVE_initializer_list_E
static inline const E *L0_initializer_list_E__begin(const struct initializer_list_E *il) { return il->_M_array; }
static inline const E *L0_initializer_list_E__end(const struct initializer_list_E *il) { return il->_M_array + il->_M_len; }
#endif
#if defined(HAVE_tuple_rpE_rb) && defined(HAVE_pair_pE_b)
static inline struct tuple_rpE_rb L0_tie__rpE_rb(E **a, _Bool *b) { struct tuple_rpE_rb t; t._0 = a; t._1 = b; return t; }
static inline struct tuple_rpE_rb *L0_tuple_rpE_rb__op_assign__rpair_pE_b(struct tuple_rpE_rb *t, struct pair_pE_b p) { *t->_0 = p.first; *t->_1 = p.second; return t; }
#endif
#ifdef HAVE_move_iterator_pE
static inline E *L0_move_iterator_pE__op_deref(struct move_iterator_pE *it) { return it->current; }
static inline struct move_iterator_pE *L0_move_iterator_pE__op_inc(struct move_iterator_pE *it) { it->current++; return it; }
static inline int64_t L0_distance__move_iterator_pE_move_iterator_pE(struct move_iterator_pE a, struct move_iterator_pE b) { return L0_PDIFF(b.current, a.current); }
static inline E *L0_copy_n__move_iterator_pE(struct move_iterator_pE f, int64_t cnt, E *d) { uint64_t n = L0_COUNT(cnt); for (uint64_t i = 0; i < n; i++) L0_E_move_assign(d + i, f.current + i); return L0_PADD(d, +, n); }
static inline E *L0_uninitialized_copy_n__move_iterator_pE(struct move_iterator_pE f, int64_t cnt, E *d) { return l0_uninit_move_n(f.current, cnt, d); }
static inline E *L0_copy__move_iterator_pE(struct move_iterator_pE f, struct move_iterator_pE l, E *d) { uint64_t n = L0_COUNT(L0_PDIFF(l.current, f.current)); for (uint64_t i = 0; i < n; i++) L0_E_move_assign(d + i, f.current + i); return L0_PADD(d, +, n); }
static inline E *L0_uninitialized_copy__move_iterator_pE(struct move_iterator_pE f, struct move_iterator_pE l, E *d) { return l0_uninit_move_n(f.current, L0_PDIFF(l.current, f.current), d); }
#endif
#ifdef HAVE_optional_E
static inline void L0_optional_E__ctor(struct optional_E *o) { o->_engaged = 0; }
static inline void L0_optional_E__ctor_from_rrE(struct optional_E *o, E *v) { o->_engaged = 1; L0_E_move_construct(&o->_val, v); }
static inline void L0_optional_E__ctor_move(struct optional_E *o, struct optional_E *src) { o->_engaged = src->_engaged; if (src->_engaged) L0_E_move_construct(&o->_val, &src->_val); }
static inline void L0_optional_E__dtor(struct optional_E *o) { if (o->_engaged) L0_E_destroy(&o->_val); o->_engaged = 0; }
static inline _Bool L0_optional_E__has_value(const struct optional_E *o) { return o->_engaged; }
static inline E *L0_optional_E__value(struct optional_E *o) { L0_assert(o->_engaged, "C03 C04: value() of an engaged node only"); return &o->_val; }
static inline E *L0_optional_E__op_deref(struct optional_E *o) { L0_assert(o->_engaged, "C03 C04: dereference of an engaged node only"); return &o->_val; }
static inline struct optional_E *L0_optional_E__op_assign__rE(struct optional_E *o, E *v) { if (o->_engaged) L0_E_move_assign(&o->_val, v); else { o->_engaged = 1; L0_E_move_construct(&o->_val, v); } return o; }
static inline struct optional_E *L0_optional_E__op_assign__rrE(struct optional_E *o, E *v) { return L0_optional_E__op_assign__rE(o, v); }
#ifdef HAVE_std_nullopt_t
static inline struct optional_E *L0_optional_E__op_assign__std_nullopt_t(struct optional_E *o, struct std_nullopt_t n) { (void)n; L0_optional_E__dtor(o); return o; }
#endif
#endif

/* ------------------------------------------------------------------------------------------------ SetSpec, concrete: the large
 * container of SmallSet as a sorted array of at most CS_MAX elements (std::set semantics), two instances told apart by address */
#if defined(WITH_SETS) && defined(HAVE_pair_pE_b) && defined(HAVE_GhostCmp)
#ifndef CS_MAX
#define CS_MAX 10
#endif
struct cset { uint64_t obj, off; uint64_t n; E buf[CS_MAX]; };
extern struct cset g_cs[2];
static inline struct cset *l0_cs(const void *set) {
  if (OBJ(set) == g_cs[0].obj && OFF(set) == g_cs[0].off) return &g_cs[0];
  if (OBJ(set) == g_cs[1].obj && OFF(set) == g_cs[1].off) return &g_cs[1];
  L0_assert(0, "UNDECIDED: operation on a set object that is not one of the two tracked sets");
  return &g_cs[0];
}
static inline _Bool L0_SET__empty_c(const void *s) { return l0_cs(s)->n == 0; }
static inline uint64_t L0_SET__size_c(const void *s) { return l0_cs(s)->n; }
static inline const E *L0_SET__begin_c(const void *s) { return l0_cs(s)->buf; }
static inline const E *L0_SET__end_c(const void *s) { struct cset *a = l0_cs(s); return a->buf + a->n; }
static inline struct GhostCmp L0_SET__key_comp_c(const void *s) { (void)s; struct GhostCmp c; c.token = g_set_cmp_token; return c; }
static inline struct pair_pE_b l0_csi(struct cset *a, E *v, _Bool move) {
  struct pair_pE_b r;
  uint64_t i = 0;
  for (; i < a->n; i++) if (!l0c_lt(g_set_cmp_token, a->buf + i, v)) break;
  if (i < a->n && !l0c_lt(g_set_cmp_token, v, a->buf + i)) { r.first = a->buf + i; r.second = 0; return r; }
  L0_assert(a->n < CS_MAX, "UNDECIDED: bounded stand-in: large set beyond the bound");
  __CPROVER_assume(a->n < CS_MAX);
  for (uint64_t j = a->n; j > i; j--) RK(a->buf + j) = RK(a->buf + j - 1);
  RK(a->buf + i) = RK(v); a->n += 1; g_nctor++;
  if (move) RK(v) = C_MOVED;
  r.first = a->buf + i; r.second = 1;
  return r;
}
static inline struct pair_pE_b l0_cs_insert(void *s, E *v, _Bool move) { return l0_csi(l0_cs(s), v, move); }
static inline struct pair_pE_b L0_SET__insert__rE(void *s, const E *v) { return l0_cs_insert(s, (E *)v, 0); }
static inline struct pair_pE_b L0_SET__insert__rrE(void *s, E *v) { return l0_cs_insert(s, v, 1); }
static inline const E *L0_SET__insert__pE_rE(void *s, const E *hint, const E *v) { (void)hint; return l0_cs_insert(s, (E *)v, 0).first; }
static inline const E *L0_SET__insert__pE_rrE(void *s, const E *hint, E *v) { (void)hint; return l0_cs_insert(s, v, 1).first; }
static inline void L0_SET__insert__pE_pE(void *s, const E *f, const E *l) { uint64_t n = L0_COUNT(L0_PDIFF(l, f)); for (uint64_t i = 0; i < n; i++) (void)l0_cs_insert(s, (E *)f + i, 0); }
#ifdef HAVE_move_iterator_pE
static inline void L0_SET__insert__move_iterator_pE_move_iterator_pE(void *s, struct move_iterator_pE f, struct move_iterator_pE l) {
  uint64_t n = L0_COUNT(L0_PDIFF(l.current, f.current));
  for (uint64_t i = 0; i < n; i++) (void)l0_cs_insert(s, f.current + i, 1);
}
#endif
/* std::set::merge(other): every element of the other set whose class is absent here moves over; the others stay */
static inline void L0_SET__merge(void *s, void *o) {
  struct cset *a = l0_cs(s), *b = l0_cs(o);
  uint64_t kept = 0;
  for (uint64_t i = 0; i < b->n; i++) {
    struct pair_pE_b r = l0_csi(a, b->buf + i, 1);
    if (!r.second) { if (kept != i) { RK(b->buf + kept) = RK(b->buf + i); } kept++; }
    else g_ndtor++;
  }
  for (uint64_t i = kept; i < b->n; i++) RK(b->buf + i) = C_RAW;
  b->n = kept;
}
static inline void L0_SET__clear(void *s) { struct cset *a = l0_cs(s); for (uint64_t i = 0; i < a->n; i++) { RK(a->buf + i) = C_RAW; g_ndtor++; } a->n = 0; }
static inline void L0_SET__swap(void *s, void *o) { struct cset *a = l0_cs(s), *b = l0_cs(o); struct cset t = *a; a->n = b->n; b->n = t.n; for (uint64_t i = 0; i < CS_MAX; i++) { a->buf[i] = b->buf[i]; b->buf[i] = t.buf[i]; } }
#ifdef FINDFUNCTOR_T
static inline E *L0_find_if(E *f, E *l, FINDFUNCTOR_T fn) { uint64_t n = L0_COUNT(L0_PDIFF(l, f)), i = 0; for (; i < n; i++) if (FINDFUNCTOR_CALL(&fn, f + i)) break; return L0_PADD(f, +, i); }
static inline _Bool L0_none_of(E *f, E *l, FINDFUNCTOR_T fn) { uint64_t n = L0_COUNT(L0_PDIFF(l, f)); for (uint64_t i = 0; i < n; i++) if (FINDFUNCTOR_CALL(&fn, f + i)) return 0; return 1; }
#endif
#endif
#endif
