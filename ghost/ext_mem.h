/* L0 primitives needed only by the [first, last) forms of the memory algorithms (C15 units with WITH_EXT_MEM); kept out of l0.h so
 * that the cache keys of the other units do not change.  ASSUMED semantics ([uninitialized.copy] on std::move_iterator):
 * std::uninitialized_copy(move_iterator(f), move_iterator(l), d) move-constructs d[j] from f[j] for every j, i.e. it is
 * std::uninitialized_move(f, l, d). */
#define L0_uninitialized_copy__move_iterator_pE(f, l, d) l0_uninit_move_n((f).current, L0_PDIFF((l).current, (f).current), (d))
