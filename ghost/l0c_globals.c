/* definitions of the globals of the CONCRETE L0 (bounded stand-ins) */
int l0_exc;
uint64_t g_nalloc, g_ndealloc, g_nrealloc, g_nctor, g_nassign, g_ndtor, g_nmove, g_nbytecopy, g_ncmp;
_Bool g_allow_elem_throw, g_allow_alloc_fail;
int g_set_cmp_token;
#if defined(WITH_SETS) && defined(HAVE_pair_pE_b) && defined(HAVE_GhostCmp)
struct cset g_cs[2];
#endif
int64_t g_in_tok, g_in_tok2, g_in_na, g_in_nb, g_in_la, g_in_lb, g_in_a0, g_in_a1, g_in_a2, g_in_a3, g_in_b0, g_in_b1, g_in_b2, g_in_b3;
