/* definitions of the globals of the CONCRETE L0 (bounded stand-ins) */
int l0_exc;
uint64_t g_nalloc, g_ndealloc, g_nrealloc, g_nctor, g_nassign, g_ndtor, g_nmove, g_nbytecopy, g_ncmp;
_Bool g_allow_elem_throw, g_allow_alloc_fail;
int g_set_cmp_token;
#if defined(WITH_SETS) && defined(HAVE_pair_pE_b) && defined(HAVE_GhostCmp)
struct cset g_cs[2];
#endif
