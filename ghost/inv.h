/* Representation invariants and abstraction functions as macros over fields (DESIGN.md section 3).
 *
 * The unit file defines, before including this header:
 *   S_T, KMAX            size type and its maximum
 *   FLAVOUR              1 = SmallVectorBase, 2 = StdVectorBase, 3 = StaticVectorBase
 *   BASE_T               lowered struct type of the base class (struct SmallVectorBase_E_A_u8 ...)
 * g_N is the (symbolic) inline capacity: a run-time value in the bases' code, so proofs hold for every N.
 *
 * Pre-state values are bound to ghost "logical variables" (struct vsnap) by equalities in the requires clause, so that
 * ensures clauses can speak about them without __CPROVER_old on compound expressions.
 */
#ifndef INV_H
#define INV_H

extern uint64_t g_N;

#define FL_SMALL 1
#define FL_STD 2
#define FL_STATIC 3

#define B(p) ((BASE_T *)(p))
#define PTR_EQ(a, b) ((a) == (b))

/* ------------------------------------------------------------------------------------------------ word machines */
#if FLAVOUR == FL_SMALL
#define INL(p)        ((E *)&B(p)->_storage)
#define DYNP(p)       (*(E **)(B(p)->_storage._el))
#define V_SMALL(p)    (B(p)->_capa < B(p)->_size)
#define V_WORDS_OK(p) (V_SMALL(p) ? ((B(p)->_size == g_N && B(p)->_capa < g_N) || (B(p)->_size == KMAX && B(p)->_capa == g_N)) \
                                  : (B(p)->_size <= B(p)->_capa && ((B(p)->_capa == 0) == (DYNP(p) == (E *)0))))
#define V_SIZE(p)     ((uint64_t)(V_SMALL(p) ? B(p)->_capa : B(p)->_size))
#define V_CAPA(p)     ((uint64_t)(V_SMALL(p) ? g_N : B(p)->_capa))
#define V_DATA(p)     (V_SMALL(p) ? INL(p) : DYNP(p))
#define V_N_OK        (1 <= g_N && g_N < KMAX)
#define INL_BYTES     ((g_N * ESZ) < 8 ? (uint64_t)8 : g_N * ESZ)
#define V_OBJ_BYTES   ((uint64_t)__builtin_offsetof(BASE_T, _storage) + INL_BYTES)
#define V_HEAP(p)     (!V_SMALL(p))
#define V_HEAP_BYTES(p) ((uint64_t)B(p)->_capa * ESZ)
#elif FLAVOUR == FL_STD
#define DYNP(p)       (B(p)->_storage)
#define V_SMALL(p)    0
#define V_WORDS_OK(p) (B(p)->_size <= B(p)->_capa && ((B(p)->_capa == 0) == (B(p)->_storage == (E *)0)))
#define V_SIZE(p)     ((uint64_t)B(p)->_size)
#define V_CAPA(p)     ((uint64_t)B(p)->_capa)
#define V_DATA(p)     (B(p)->_storage)
#define V_N_OK        (g_N == 0)
#define V_OBJ_BYTES   ((uint64_t)sizeof(BASE_T))
#define V_HEAP(p)     (B(p)->_capa != 0)
#define V_HEAP_BYTES(p) ((uint64_t)B(p)->_capa * ESZ)
#elif FLAVOUR == FL_STATIC
#define INL(p)        ((E *)&B(p)->_firstEl)
#define V_SMALL(p)    1
#define V_WORDS_OK(p) (B(p)->_capa == g_N && B(p)->_size <= g_N)
#define V_SIZE(p)     ((uint64_t)B(p)->_size)
#define V_CAPA(p)     ((uint64_t)B(p)->_capa)
#define V_DATA(p)     INL(p)
#define V_N_OK        (1 <= g_N && g_N <= KMAX)
#define V_OBJ_BYTES   ((uint64_t)__builtin_offsetof(BASE_T, _firstEl) + g_N * ESZ)
#define V_HEAP(p)     0
#define V_HEAP_BYTES(p) ((uint64_t)0)
#endif

/* growth specification: max((3*old+1)/2, requested) clamped to the size type (mathematical: operands < 2^62) */
#define GROW_15(c)      ((3 * (uint64_t)(c) + 1) / 2)
#define GROW_MAX_(a, b) ((a) < (b) ? (b) : (a))
#define GROW_MIN_(a, b) ((b) < (a) ? (b) : (a))
#define GROW_SPEC(c, req) GROW_MIN_(GROW_MAX_(GROW_15(c), (uint64_t)(req)), (uint64_t)KMAX)

/* ------------------------------------------------------------------------------------------------ ghost relations */
/* location (obj, off) lies on element slot k in [lo, hi) of the buffer starting at d */
#define LOC_IN(obj, off, d, lo, hi) \
  ((obj) == OBJ(d) && (off) >= OFF(d) + (uint64_t)(lo) * ESZ && (off) < OFF(d) + (uint64_t)(hi) * ESZ)
#define CELL_IN(d, lo, hi) LOC_IN(g_cell_obj, g_cell_off, d, lo, hi)
#define TOK_IN(d, lo, hi)  (g_tok_on && LOC_IN(g_tok_obj, g_tok_off, d, lo, hi))
#define CELL_AT(d, k)      (g_cell_obj == OBJ(d) && g_cell_off == OFF(d) + (uint64_t)(k) * ESZ)
#define TOK_AT(d, k)       (g_tok_on && g_tok_obj == OBJ(d) && g_tok_off == OFF(d) + (uint64_t)(k) * ESZ)
#define CELL_IDX(d)        ((g_cell_off - OFF(d)) / ESZ)
#define TOK_IDX(d)         ((g_tok_off - OFF(d)) / ESZ)

/* the tracked cell is consistent with the container: live inside [0,size), raw inside [size,capacity);
 * for a heap-backed SmallVector the inline slots hold no element (the pointer lives in their bytes) */
#if CAT_TC
/* trivially copyable elements have no observable lifetime events (destruction is a no-op, construction may overwrite): the only
 * state that matters is "initialised": every slot below size holds a value; slots above may hold stale ones */
#define V_CELL_OK(p) (!CELL_IN(V_DATA(p), 0, V_SIZE(p)) || g_cell_st == ST_LIVE)
#else
#if FLAVOUR == FL_SMALL
#define V_CELL_OK(p) ((!CELL_IN(V_DATA(p), 0, V_SIZE(p)) || g_cell_st == ST_LIVE) && \
                      (!CELL_IN(V_DATA(p), V_SIZE(p), V_CAPA(p)) || g_cell_st == ST_RAW) && \
                      (V_SMALL(p) || !(g_cell_obj == OBJ(p)) || g_cell_st == ST_RAW))
#else
#define V_CELL_OK(p) ((!CELL_IN(V_DATA(p), 0, V_SIZE(p)) || g_cell_st == ST_LIVE) && \
                      (!CELL_IN(V_DATA(p), V_SIZE(p), V_CAPA(p)) || g_cell_st == ST_RAW))
#endif
#endif
/* the token designates a live element: never a raw slot of the container */
#if CAT_TC
#define V_TOK_OK(p) 1          /* stale values of trivially copyable elements may remain above size: see V_CELL_OK */
#elif FLAVOUR == FL_SMALL
#define V_TOK_OK(p) (!TOK_IN(V_DATA(p), V_SIZE(p), V_CAPA(p)) && (V_SMALL(p) || !(g_tok_on && g_tok_obj == OBJ(p))))
#else
#define V_TOK_OK(p) (!TOK_IN(V_DATA(p), V_SIZE(p), V_CAPA(p)))
#endif
/* tracked locations that lie in an object of the container sit on an element slot of that object */
#define GRID_OK(off, d) ((off) >= OFF(d) && (((off) - OFF(d)) % ESZ == 0))
#if FLAVOUR == FL_STD
#define V_LOC_OK(obj, off, p) (!V_HEAP(p) || (obj) != OBJ(V_DATA(p)) || (GRID_OK(off, V_DATA(p)) && (off) + ESZ <= OFF(V_DATA(p)) + V_HEAP_BYTES(p)))
#elif FLAVOUR == FL_SMALL
#define V_LOC_OK(obj, off, p) ((!V_HEAP(p) || (obj) != OBJ(V_DATA(p)) || (GRID_OK(off, V_DATA(p)) && (off) + ESZ <= OFF(V_DATA(p)) + V_HEAP_BYTES(p))) && \
                               ((obj) != OBJ(p) || (GRID_OK(off, INL(p)) && (off) + ESZ <= OFF(INL(p)) + g_N * ESZ)))
#else
#define V_LOC_OK(obj, off, p) ((obj) != OBJ(p) || (GRID_OK(off, INL(p)) && (off) + ESZ <= OFF(INL(p)) + g_N * ESZ))
#endif
#define V_ALIGN_OK(p) (V_LOC_OK(g_cell_obj, g_cell_off, p) && (!g_tok_on || V_LOC_OK(g_tok_obj, g_tok_off, p)))
/* memory shape + words of one container operand, for requires clauses (evaluated left to right) */
#define V_REQ(p) (V_FRESH(p, V_OBJ_BYTES) && V_WORDS_OK(p) && ((V_HEAP(p) && V_HEAP_BYTES(p) != 0) ==> V_FRESH(DYNP(p), V_HEAP_BYTES(p))) && \
                  V_ALIGN_OK(p) && V_CELL_OK(p) && V_TOK_OK(p) && V_BLK_OK(p))
/* same shape, but every element has already been destroyed (state in which the base-class destructor runs) */
#define V_REQ_DEAD(p) (V_FRESH(p, V_OBJ_BYTES) && V_WORDS_OK(p) && ((V_HEAP(p) && V_HEAP_BYTES(p) != 0) ==> V_FRESH(DYNP(p), V_HEAP_BYTES(p))) && \
                  V_ALIGN_OK(p) && (CAT_TC || !V_OWNS_OBJ(p, g_cell_obj) || g_cell_st == ST_RAW) && !(g_tok_on && V_OWNS_OBJ(p, g_tok_obj)) && V_BLK_OK(p))
#define V_POST(p) (V_WORDS_OK(p) && V_CELL_OK(p) && V_TOK_OK(p) && V_BLK_OK(p))
/* cell and token agree where they coincide */
#define GHOST_OK (g_blk_state != BLK_FREED && g_blk_obj != 0 && (!g_tok_on || !(g_tok_obj == g_cell_obj && g_tok_off == g_cell_off) || (g_cell_st == ST_LIVE && g_cell_val == g_tokval)) && l0_exc == 0)
/* the tracked block is consistent with the container: its heap buffer is an outstanding block of capacity*ESZ bytes */
#define V_BLK_OK(p) (g_blk_obj != OBJ(p) && (!V_HEAP(p) || g_blk_obj != OBJ(V_DATA(p)) || (g_blk_state == BLK_ALLOCATED && g_blk_bytes == V_HEAP_BYTES(p))))
/* a location that belongs to no buffer of the container */
#define V_OWNS_OBJ(p, obj) ((obj) == OBJ(p) || (V_HEAP(p) && (obj) == OBJ(V_DATA(p))))

/* full invariant of one container (memory shape is established separately by V_SHAPE in requires) */
#define V_INV(p) (V_WORDS_OK(p) && V_CELL_OK(p) && V_BLK_OK(p))

/* state of a moved-from vector */
#if FLAVOUR == FL_SMALL
#define V_MOVED_FROM(o) (V_SMALL(o) && V_SIZE(o) == 0 && V_CAPA(o) == g_N)
#elif FLAVOUR == FL_STD
#define V_MOVED_FROM(o) (V_SIZE(o) == 0 && V_CAPA(o) == 0 && B(o)->_storage == (E *)0)
#else
#define V_MOVED_FROM(o) (V_SIZE(o) == 0)
#endif

/* ------------------------------------------------------------------------------------------------ snapshots */
struct vsnap { uint64_t size, capa; _Bool heap; E *data; uint64_t data_obj, data_off; };
#define V_BIND(sn, p) ((sn).size == V_SIZE(p) && (sn).capa == V_CAPA(p) && (sn).heap == (V_HEAP(p) ? 1 : 0) && (sn).data == V_DATA(p) && \
                       (sn).data_obj == OBJ(V_DATA(p)) && (sn).data_off == OFF(V_DATA(p)))
struct gsnap { uint64_t cell_obj, cell_off; int cell_st, cell_val; _Bool tok_on; uint64_t tok_obj, tok_off; int tokval;
               uint64_t blk_obj, blk_bytes; int blk_state;
               uint64_t nalloc, ndealloc, nrealloc, nctor, nassign, ndtor, nmove, nbytecopy; };
#define G_BIND(gs) ((gs).cell_obj == g_cell_obj && (gs).cell_off == g_cell_off && (gs).cell_st == g_cell_st && (gs).cell_val == g_cell_val && \
                    (gs).tok_on == g_tok_on && (gs).tok_obj == g_tok_obj && (gs).tok_off == g_tok_off && (gs).tokval == g_tokval && \
                    (gs).blk_obj == g_blk_obj && (gs).blk_bytes == g_blk_bytes && (gs).blk_state == g_blk_state && \
                    (gs).nalloc == g_nalloc && (gs).ndealloc == g_ndealloc && (gs).nrealloc == g_nrealloc && (gs).nctor == g_nctor && \
                    (gs).nassign == g_nassign && (gs).ndtor == g_ndtor && (gs).nmove == g_nmove && (gs).nbytecopy == g_nbytecopy)
#define G_UNCHANGED(gs) G_BIND(gs)
/* pre-state token position relative to a pre-state buffer */
#define PRE_TOK_IN(gs, sn, lo, hi) ((gs).tok_on && (gs).tok_obj == (sn).data_obj && (gs).tok_off >= (sn).data_off + (uint64_t)(lo) * ESZ && \
                                    (gs).tok_off < (sn).data_off + (uint64_t)(hi) * ESZ)
#define PRE_TOK_IDX(gs, sn) (((gs).tok_off - (sn).data_off) / ESZ)
#define PRE_CELL_IN(gs, sn, lo, hi) ((gs).cell_obj == (sn).data_obj && (gs).cell_off >= (sn).data_off + (uint64_t)(lo) * ESZ && \
                                    (gs).cell_off < (sn).data_off + (uint64_t)(hi) * ESZ)

/* ------------------------------------------------------------------------------------------------ operation-level helpers */
/* the vector the operation works on: the object itself, or the sorted vector inside a set */
#ifndef OPSELF
#define OPSELF self
#endif
extern uint64_t g_pos, g_pos2;   /* positions designated by iterator arguments */
extern _Bool g_alias;      /* the value argument is element g_src of the container itself */
extern uint64_t g_src;
#if FLAVOUR == FL_STATIC
#define V_LIMIT ((uint64_t)g_N)
#define V_LIMIT_EXC L0_EXC_OUT_OF_RANGE
#define V_DYNAMIC 0
#else
#define V_LIMIT ((uint64_t)KMAX)
#define V_LIMIT_EXC L0_EXC_OVERFLOW
#define V_DYNAMIC 1
#endif
#if FLAVOUR == FL_STD
#define V_INLINE_PRE 0
#else
#define V_INLINE_PRE (!pre_self.heap)
#endif
/* an object outside the container that may carry the tracked cell / token */
#define EXT_OK(v) ((g_cell_obj != OBJ(v) || (g_cell_off == OFF(v) && g_cell_st == ST_LIVE)) && (!g_tok_on || g_tok_obj != OBJ(v) || g_tok_off == OFF(v)))
/* value argument: element g_src of the container, or a live object outside it */
#define ARG_REQ(v) ((g_alias ==> (g_src < V_SIZE(OPSELF) && (v) == V_AT(self, g_src))) && (!g_alias ==> (V_FRESH(v, ESZ) && EXT_OK(v))))
/* iterator argument = element index g_pos of the container */
#define V_AT(p, i) L0_PADD(V_DATA(p), +, (i))
#define POS_REQ(it, idx, maxidx) ((idx) <= (maxidx) && (it) == V_AT(self, idx))
/* external source range [first, first + g_cnt) of a range operation: live elements outside the container */
extern uint64_t g_cnt;
#define RANGE_REQ(first, last) (g_cnt < (1UL << 16) && V_FRESH(first, (g_cnt ? g_cnt : 1) * ESZ) && (last) == L0_PADD(first, +, g_cnt) && \
                                (g_cell_obj != OBJ(first) || (GRID_OK(g_cell_off, first) && g_cell_off < OFF(first) + g_cnt * ESZ && g_cell_st == ST_LIVE)) && \
                                (!g_tok_on || g_tok_obj != OBJ(first) || (GRID_OK(g_tok_off, first) && g_tok_off < OFF(first) + g_cnt * ESZ)))
#define PRE_TOK_IN_RANGE(first) (pre_g.tok_on && pre_g.tok_obj == OBJ(first))
#define PRE_TOK_RANGE_IDX(first) ((pre_g.tok_off - OFF(first)) / ESZ)
/* slot lo + j holds the value of source element j */
#define V_NEW_CELLS_FROM_RANGE(lo, first) (!(PRE_TOK_IN_RANGE(first) && CELL_AT(V_DATA(OPSELF), (lo) + PRE_TOK_RANGE_IDX(first))) || (g_cell_st == ST_LIVE && g_cell_val == pre_g.tokval))
/* objects constructed minus objects destroyed during the call */
#define V_BALANCE(delta) (CAT_TC || g_nctor + pre_g.ndtor + (uint64_t)(delta) * 0 == g_ndtor + pre_g.nctor + (uint64_t)(delta) || 0)
#define V_LIVE_DELTA(plus, minus) (CAT_TC || g_nctor + pre_g.ndtor + (uint64_t)(minus) == g_ndtor + pre_g.nctor + (uint64_t)(plus))
/* emplace arguments: EMPLACE_KIND 1 = const T& (may alias), 2 = T&& (external object, moved in), 3 = int (value) */
#if EMPLACE_KIND == 1
#define EMPLACE_ARG_REQ(a) ARG_REQ(a)
#define EMPLACE_NEW_CELL(idx, a) V_NEW_CELLS_HAVE(idx, (idx) + 1, a)
#elif EMPLACE_KIND == 2
#define EMPLACE_ARG_REQ(a) (V_FRESH(a, ESZ) && EXT_OK(a))
#define EMPLACE_NEW_CELL(idx, a) V_MOVED_IN(idx, a)
#else
#define EMPLACE_ARG_REQ(a) V_FRESH(a, sizeof(int))
#define EMPLACE_NEW_CELL(idx, a) (!CELL_AT(V_DATA(OPSELF), idx) || g_cell_st == ST_LIVE)
#endif
#define PRE_TOK_AT(v) (pre_g.tok_on && pre_g.tok_obj == OBJ(v) && pre_g.tok_off == OFF(v))
/* the object v was moved into slot idx: the element is now there (for a trivially copyable type a move is a copy: the slot
 * holds the value, the source keeps it) */
#if CAT_TC
#define V_MOVED_IN(idx, v) (!(PRE_TOK_AT(v) && CELL_AT(V_DATA(OPSELF), idx)) || (g_cell_st == ST_LIVE && g_cell_val == pre_g.tokval))
#else
#define V_MOVED_IN(idx, v) (!PRE_TOK_AT(v) || TOK_AT(V_DATA(OPSELF), idx))
#endif
/* old elements [lo,hi) are now at their old index + shift */
#define V_ELEMS_KEPT(lo, hi, shift) (!PRE_TOK_IN(pre_g, pre_self, lo, hi) || TOK_AT(V_DATA(OPSELF), PRE_TOK_IDX(pre_g, pre_self) + (shift)))
/* old elements [lo,hi) no longer exist */
#define V_ELEMS_GONE(lo, hi) (CAT_TC || !PRE_TOK_IN(pre_g, pre_self, lo, hi) || !g_tok_on)
/* the slots [lo,hi) hold the value the argument had before the call */
#define V_NEW_CELLS_HAVE(lo, hi, v) (!(PRE_TOK_AT(v) && CELL_IN(V_DATA(OPSELF), lo, hi)) || (g_cell_st == ST_LIVE && g_cell_val == pre_g.tokval))
#define V_NEW_CELLS_INIT(lo, hi) (!CELL_IN(V_DATA(OPSELF), lo, hi) || (g_cell_st == ST_LIVE && (g_cell_val == L0_VAL_INIT || CAT_TC)))
#define V_NO_REALLOC (V_DATA(OPSELF) == pre_self.data && V_CAPA(OPSELF) == pre_self.capa && g_nalloc == pre_g.nalloc && g_nrealloc == pre_g.nrealloc && g_ndealloc == pre_g.ndealloc)
#define V_UNTOUCHED (V_SIZE(OPSELF) == pre_self.size && V_CAPA(OPSELF) == pre_self.capa && V_DATA(OPSELF) == pre_self.data && G_UNCHANGED(pre_g))
/* emplace: the element may have been built in a temporary and destroyed again before the error was raised */
#define V_UNTOUCHED_BUT_TEMP (V_SIZE(OPSELF) == pre_self.size && V_CAPA(OPSELF) == pre_self.capa && V_DATA(OPSELF) == pre_self.data && \
    g_nalloc == pre_g.nalloc && g_ndealloc == pre_g.ndealloc && g_nrealloc == pre_g.nrealloc && g_blk_state == pre_g.blk_state && V_ELEMS_KEPT(0, pre_self.size, 0))
#define V_STRONG (l0_exc == 0 || (V_SIZE(OPSELF) == pre_self.size && V_ELEMS_KEPT(0, pre_self.size, 0)))
#define V_EXC_KINDS (l0_exc == 0 || l0_exc == V_LIMIT_EXC || l0_exc == L0_EXC_BAD_ALLOC || l0_exc == L0_EXC_ELEM)
#define V_GREW_ONCE (g_nalloc + g_nrealloc == pre_g.nalloc + pre_g.nrealloc + 1)

/* ------------------------------------------------------------------------------------------------ construction / destruction
 * raw storage of a container object under construction; the logical pre-state of the operation that fills it is the empty
 * container its base-class constructor makes */
#if FLAVOUR == FL_STD
#define V_RAW_LOC_OK(obj, off, p) ((obj) != OBJ(p))
#define V_EMPTY_CAPA ((uint64_t)0)
#define V_EMPTY_DATA(p) ((E *)0)
#else
#define V_RAW_LOC_OK(obj, off, p) ((obj) != OBJ(p) || (GRID_OK(off, INL(p)) && (off) + ESZ <= OFF(INL(p)) + g_N * ESZ))
#define V_EMPTY_CAPA ((uint64_t)g_N)
#define V_EMPTY_DATA(p) INL(p)
#endif
#define V_REQ_RAW(p) (V_FRESH(p, V_OBJ_BYTES) && V_RAW_LOC_OK(g_cell_obj, g_cell_off, p) && (g_cell_obj != OBJ(p) || g_cell_st == ST_RAW) && \
                      !(g_tok_on && g_tok_obj == OBJ(p)) && g_blk_obj != OBJ(p))
#define V_BIND_EMPTY(sn, p) ((sn).size == 0 && (sn).capa == V_EMPTY_CAPA && (sn).heap == 0 && (sn).data == V_EMPTY_DATA(p) && \
                             (sn).data_obj == OBJ(V_EMPTY_DATA(p)) && (sn).data_off == OFF(V_EMPTY_DATA(p)))
#define V_IS_EMPTY_NEW(p) (V_SIZE(p) == 0 && V_CAPA(p) == V_EMPTY_CAPA && !V_HEAP(p))
/* the construction failed: no element of the object is left alive, constructions and destructions balance, every block obtained
 * during the call was handed back (a constructor grows at most once, from the empty state: a reallocate request made by it
 * is a request on the null buffer and obtains a block like allocate) */
#define V_CTOR_FAILED(p) ((g_cell_obj != OBJ(p) || CAT_TC || g_cell_st == ST_RAW) && V_LIVE_DELTA(0, 0) && \
                          (g_nalloc - pre_g.nalloc) + (g_nrealloc - pre_g.nrealloc) == g_ndealloc - pre_g.ndealloc && \
                          (g_blk_state == pre_g.blk_state || (pre_g.blk_state == BLK_NONE && g_blk_state == BLK_FREED)))
/* two-operand operations that move or exchange buffers: a block that one of the operands owned before the call is owned by one
 * of them afterwards or has been handed back -- never left outstanding without an owner (leak) */
#define V_BLOCKS_CONSERVED(a, b) (!(pre_g.blk_state == BLK_ALLOCATED && ((pre_self.heap && pre_g.blk_obj == pre_self.data_obj) || (pre_o.heap && pre_g.blk_obj == pre_o.data_obj))) || \
                                  g_blk_state == BLK_FREED || (V_HEAP(a) && OBJ(V_DATA(a)) == g_blk_obj) || (V_HEAP(b) && OBJ(V_DATA(b)) == g_blk_obj))
/* a second container of the same type used as a source only: left exactly as it was */
#define V_SRC_UNTOUCHED(o) (V_SIZE(o) == pre_o.size && V_CAPA(o) == pre_o.capa && V_DATA(o) == pre_o.data && \
                            (!PRE_TOK_IN(pre_g, pre_o, 0, pre_o.size) || (g_tok_on && g_tok_obj == pre_g.tok_obj && g_tok_off == pre_g.tok_off)))
/* element i of the new contents is a copy of element i of the source container */
#define V_COPIED_FROM_O(lo) (!(PRE_TOK_IN(pre_g, pre_o, 0, pre_o.size) && CELL_AT(V_DATA(OPSELF), (lo) + PRE_TOK_IDX(pre_g, pre_o))) || (g_cell_st == ST_LIVE && g_cell_val == pre_g.tokval))

/* ------------------------------------------------------------------------------------------------ memory algorithms (C15)
 * one range [p, p + g_cnt): effect of the algorithm on the tracked cell / token, stated exactly as ghost/l0.h does for the
 * std:: namesake; pre_p1 / pre_p2 are logical variables holding the pointer arguments at entry */
extern E *pre_p1, *pre_p2;
extern int g_int0;        /* logical variable for a pre-state int (e.g. the comparator token of the other operand) */
extern void *g_other;   /* a second container object: the argument is either *this (g_alias) or this object */
#define RANGE_LOC_OK(p) ((g_cell_obj != OBJ(p) || GRID_OK(g_cell_off, p)) && (!g_tok_on || g_tok_obj != OBJ(p) || GRID_OK(g_tok_off, p)))
#define CNT_OF(n) ((n) > 0 ? (uint64_t)(n) : (uint64_t)0)
#define PRE_CELL_INR(p, lo, hi) (pre_g.cell_obj == OBJ(p) && pre_g.cell_off >= OFF(p) + (uint64_t)(lo) * ESZ && pre_g.cell_off < OFF(p) + (uint64_t)(hi) * ESZ)
#define PRE_TOK_INR(p, lo, hi) (pre_g.tok_on && pre_g.tok_obj == OBJ(p) && pre_g.tok_off >= OFF(p) + (uint64_t)(lo) * ESZ && pre_g.tok_off < OFF(p) + (uint64_t)(hi) * ESZ)
/* the elements [lo, hi) of the range starting at p have been destroyed, everything else is as at entry */
#define DESTROYED_UPTO(p, lo, hi) ((PRE_CELL_INR(p, lo, hi) ? (CAT_TC || g_cell_st == ST_RAW) : g_cell_st == pre_g.cell_st) && g_cell_val == pre_g.cell_val && \
                                   g_cell_obj == pre_g.cell_obj && g_cell_off == pre_g.cell_off && \
                                   (PRE_TOK_INR(p, lo, hi) ? (CAT_TC || !g_tok_on) : g_tok_on == pre_g.tok_on) && g_tok_obj == pre_g.tok_obj && g_tok_off == pre_g.tok_off)

/* loop-entry relative forms (valid in every calling context): progress k over the range that starts at f0 */
#define LE(x) __CPROVER_loop_entry(x)
#define CELL_INR(p, lo, hi) (g_cell_obj == OBJ(p) && g_cell_off >= OFF(p) + (uint64_t)(lo) * ESZ && g_cell_off < OFF(p) + (uint64_t)(hi) * ESZ)
#define TOK_LOC_INR(p, lo, hi) (g_tok_obj == OBJ(p) && g_tok_off >= OFF(p) + (uint64_t)(lo) * ESZ && g_tok_off < OFF(p) + (uint64_t)(hi) * ESZ)
#define LOOP_DESTROYED(f0, k) ((CELL_INR(f0, 0, k) ? (CAT_TC || g_cell_st == ST_RAW) : g_cell_st == LE(g_cell_st)) && \
                               ((LE(g_tok_on) && TOK_LOC_INR(f0, 0, k)) ? (CAT_TC || !g_tok_on) : g_tok_on == LE(g_tok_on)) && g_ndtor == LE(g_ndtor) + (uint64_t)(k))
/* k objects constructed (value-initialised / copies / moved-in) at d0, nothing else touched */
#define LOOP_CONSTRUCTED(d0, k) ((CELL_INR(d0, 0, k) ? (g_cell_st == ST_LIVE) : (g_cell_st == LE(g_cell_st) && g_cell_val == LE(g_cell_val))) && g_nctor == LE(g_nctor) + (uint64_t)(k))

/* k elements copy-assigned onto d0[0..k) from the range that starts soff elements after s0: destinations alive and holding the
 * value of their source, a token that sat on a destination is gone, everything else untouched */
#define LOOP_COPY_ASSIGNED(s0, soff, d0, k) \
   ((CELL_INR(d0, 0, k) ? (g_cell_st == ST_LIVE && (!(g_tok_on && g_tok_obj == OBJ(s0) && g_tok_off - (OFF(s0) + (uint64_t)(soff) * ESZ) == g_cell_off - OFF(d0)) || g_cell_val == g_tokval)) \
                        : (g_cell_st == LE(g_cell_st) && g_cell_val == LE(g_cell_val))) && \
    ((LE(g_tok_on) && TOK_LOC_INR(d0, 0, k)) ? !g_tok_on : g_tok_on == LE(g_tok_on)) && \
    g_nassign >= LE(g_nassign) && g_nassign <= LE(g_nassign) + (uint64_t)(k))
/* k elements moved from f0 to d0: destinations alive, sources moved-from, the token followed its element, the rest untouched */
#define MOVED_UPTO(f0, d0, k) ((CELL_INR(d0, 0, k) ? g_cell_st == ST_LIVE : (CELL_INR(f0, 0, k) ? (CAT_TC || g_cell_st == ST_MOVED) : (g_cell_st == LE(g_cell_st) && g_cell_val == LE(g_cell_val)))) && \
    ((LE(g_tok_on) && LE(g_tok_obj) == OBJ(f0) && LE(g_tok_off) >= OFF(f0) && LE(g_tok_off) < OFF(f0) + (uint64_t)(k) * ESZ) ? (g_tok_obj == OBJ(d0) && g_tok_off - OFF(d0) == LE(g_tok_off) - OFF(f0)) : (g_tok_obj == LE(g_tok_obj) && g_tok_off == LE(g_tok_off))))

extern struct vsnap pre_self, pre_o;
extern struct gsnap pre_g;
#ifdef FLAVOUR2
#include "inv2.h"
/* swap2: the exchange is impossible when a fixed capacity or a size_type cannot hold the other operand's size (or, when heap
 * buffers change owner, its capacity) */
#define V_CANNOT_HOLD(n) ((uint64_t)(n) > V_LIMIT)
#if FLAVOUR2 == FL_STATIC
#define W_CANNOT_HOLD(n) ((uint64_t)(n) > g_N2)
#else
#define W_CANNOT_HOLD(n) ((uint64_t)(n) > (uint64_t)KMAX2)
#endif
#define SWAP2_BUFFERS (FLAVOUR != FL_STATIC && FLAVOUR2 != FL_STATIC && pre_self.heap && pre_o.heap)
#define SWAP2_IMPOSSIBLE (V_CANNOT_HOLD(pre_o.size) || W_CANNOT_HOLD(pre_self.size))
#endif
#ifdef WITH_SETS
#include "inv_sets.h"
#endif
#endif
