/* L0 primitives whose signatures mention lowered struct types (included after the struct definitions). */
#ifdef L0_CONCRETE
#include "l0c_post.h"
#define L0_POST_H
#endif
#ifndef L0_POST_H
#define L0_POST_H
#ifdef HAVE_pair_pE_pE
static inline struct pair_pE_pE L0_uninitialized_move_n(E *f, int64_t cnt, E *d) {
  struct pair_pE_pE r;
  r.second = l0_uninit_move_n(f, cnt, d);
  r.first = f + L0_COUNT(cnt);
  return r;
}
#endif
#ifdef HAVE_initializer_list_E
static inline const E *L0_initializer_list_E__begin(const struct initializer_list_E *il) { return il->_M_array; }
static inline const E *L0_initializer_list_E__end(const struct initializer_list_E *il) { return il->_M_array + il->_M_len; }
#endif
#if defined(HAVE_tuple_rpE_rb) && defined(HAVE_pair_pE_b)
/* std::tie(it, flag) = pair: a tuple of references, assigned member-wise */
static inline struct tuple_rpE_rb L0_tie__rpE_rb(E **a, _Bool *b) { struct tuple_rpE_rb t; t._0 = a; t._1 = b; return t; }
static inline struct tuple_rpE_rb *L0_tuple_rpE_rb__op_assign__rpair_pE_b(struct tuple_rpE_rb *t, struct pair_pE_b p) { *t->_0 = p.first; *t->_1 = p.second; return t; }
#endif
#if defined(WITH_SETS) && defined(HAVE_GhostCmp)
static inline _Bool L0_GhostCmp__call(const struct GhostCmp *c, const E *a, const E *b) { return l0_cmp(c->token, a, b); }
static inline E *L0_lower_bound(const E *f, const E *l, const E *v, struct GhostCmp c) { return (E *)l0_bound(f, l, v, c.token, 0); }
static inline E *L0_upper_bound(const E *f, const E *l, const E *v, struct GhostCmp c) { return (E *)l0_bound(f, l, v, c.token, 1); }
static inline E *L0_lower_bound__pE_pE_rE(const E *f, const E *l, const E *v) { return (E *)l0_bound_no_cmp(f, l, v); }
static inline E *L0_upper_bound__pE_pE_rE(const E *f, const E *l, const E *v) { return (E *)l0_bound_no_cmp(f, l, v); }
#endif
#ifdef HAVE_optional_E
/* std::optional<E> of the node handles: engaged flag + one element slot */
static inline void L0_optional_E__ctor(struct optional_E *o) { o->_engaged = 0; }
static inline void L0_optional_E__ctor_from_rrE(struct optional_E *o, E *v) { o->_engaged = 1; L0_E_move_construct(&o->_val, v); }
static inline void L0_optional_E__ctor_move(struct optional_E *o, struct optional_E *src) { o->_engaged = src->_engaged; if (src->_engaged) L0_E_move_construct(&o->_val, &src->_val); }
static inline void L0_optional_E__dtor(struct optional_E *o) { if (o->_engaged) L0_E_destroy(&o->_val); o->_engaged = 0; }
static inline _Bool L0_optional_E__has_value(const struct optional_E *o) { return o->_engaged; }
static inline E *L0_optional_E__value(struct optional_E *o) { L0_assert(o->_engaged, "C03 C04: value() of an engaged node only"); return &o->_val; }
static inline E *L0_optional_E__op_deref(struct optional_E *o) { L0_assert(o->_engaged, "C03 C04: dereference of an engaged node only"); return &o->_val; }
static inline struct optional_E *L0_optional_E__op_assign__rE(struct optional_E *o, E *v) {
  if (o->_engaged) L0_E_move_assign(&o->_val, v); else { o->_engaged = 1; L0_E_move_construct(&o->_val, v); }
  return o;
}
static inline struct optional_E *L0_optional_E__op_assign__rrE(struct optional_E *o, E *v) { return L0_optional_E__op_assign__rE(o, v); }
#ifdef HAVE_std_nullopt_t
static inline struct optional_E *L0_optional_E__op_assign__std_nullopt_t(struct optional_E *o, struct std_nullopt_t n) { (void)n; L0_optional_E__dtor(o); return o; }
#endif
#endif
#include "l0_aset.h"
#endif
