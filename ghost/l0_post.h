/* L0 primitives whose signatures mention lowered struct types (included after the struct definitions). */
#ifndef L0_POST_H
#define L0_POST_H
#ifdef HAVE_pair_pE_pE
static inline struct pair_pE_pE L0_uninitialized_move_n(E *f, int64_t cnt, E *d) {
  struct pair_pE_pE r;
  r.second = l0_uninit_move_n(f, cnt, d);
  r.first = f + L0_COUNT(cnt);
  return r;
}
#endif
#ifdef HAVE_initializer_list_E
static inline const E *L0_initializer_list_E__begin(const struct initializer_list_E *il) { return il->_M_array; }
static inline const E *L0_initializer_list_E__end(const struct initializer_list_E *il) { return il->_M_array + il->_M_len; }
#endif
#if defined(WITH_SETS) && defined(HAVE_GhostCmp)
static inline _Bool L0_GhostCmp__call(const struct GhostCmp *c, const E *a, const E *b) { return l0_cmp(c->token, a, b); }
static inline E *L0_lower_bound(const E *f, const E *l, const E *v, struct GhostCmp c) { return (E *)l0_bound(f, l, v, c.token, 0); }
static inline E *L0_upper_bound(const E *f, const E *l, const E *v, struct GhostCmp c) { return (E *)l0_bound(f, l, v, c.token, 1); }
#endif
#include "l0_aset.h"
#endif
