/* Included by the units of the relational operators only (WITH_EXT_CMP), so that no other cache key changes: the abstract result of
 * the one std::equal / std::lexicographical_compare call of L0 (ghost/l0.h) is recorded in g_cmp_res, which lets the contracts pin
 * the polarity of !=, <=, >, >= relative to that call.  The primitives themselves are unchanged (parenthesised name = the function). */
_Bool g_cmp_res;
#define L0_lexicographical_compare(f1, l1, f2, l2) (g_cmp_res = (L0_lexicographical_compare)((f1), (l1), (f2), (l2)))
#define L0_equal(f1, l1, f2) (g_cmp_res = (L0_equal)((f1), (l1), (f2)))
