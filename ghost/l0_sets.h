/* L0 for the sets: comparator calls, binary searches and linear searches over an abstract ranked sequence.
 *
 * Model (DESIGN.md 2.4 "registered indices"): every element of the sorted vector has an abstract integer rank; the stored
 * comparator (GhostCmp with a token) orders by rank, ascending or descending (g_set_desc), possibly coarsely (equal ranks =
 * equivalent elements).  Ranks are known only at a small set of REGISTERED indices, fixed before the call by the contract's
 * precondition, which also states the representation invariant (strictly increasing under the stored comparator) pairwise
 * over those indices -- a finite set of sound instances of the universally quantified invariant.  Results of
 * std::lower_bound / upper_bound are prophecy variables constrained by the algorithm's local postcondition.  Every rank read
 * asserts that the index is registered: code that consults another element is reported as undecided, never reasoned about
 * without the invariant.
 */
#ifndef L0_SETS_H
#define L0_SETS_H

#define NREG 10
extern uint64_t g_set_obj, g_set_off, g_set_n;      /* buffer of the sorted sequence at call time, and its length */
extern int g_set_cmp_token;                          /* token of the comparator object stored in the set */
extern _Bool g_set_desc;                             /* stored comparator orders descending */
extern uint64_t g_reg_idx[NREG];
extern int64_t g_reg_rank[NREG];
extern uint64_t g_key_obj, g_key_off;                /* the key / value argument */
extern int64_t g_key_rank;
extern uint64_t g_lb[4];                             /* prophecies: results (indices) of the successive binary searches */
extern uint64_t g_lb_calls;
extern _Bool g_unregistered_read;                    /* set when the code consulted an element that is not registered */
extern uint64_t g_lg;                                /* abstract ceil(log2(n+1)): cost bound of one binary search (C19) */

/* strict order of the stored comparator on ranks */
#define RANK_LT(a, b) (g_set_desc ? (a) > (b) : (a) < (b))

static inline int64_t l0_rank_at(uint64_t idx) {
#define L0_REG_TRY(k) if (g_reg_idx[k] == idx) return g_reg_rank[k];
  L0_REG_TRY(0) L0_REG_TRY(1) L0_REG_TRY(2) L0_REG_TRY(3) L0_REG_TRY(4) L0_REG_TRY(5) L0_REG_TRY(6) L0_REG_TRY(7) L0_REG_TRY(8) L0_REG_TRY(9)
  g_unregistered_read = 1;
  L0_assert(0, "UNDECIDED: the code consulted an element whose index is not among the registered ones");
  return nondet_int();
}
#ifdef KEY_FLOATING
/* emplace: the key is the element the function itself builds from its arguments -- any element object outside the sequence */
static inline _Bool l0_is_key(const E *p) { return OBJ(p) != g_set_obj; }
#else
static inline _Bool l0_is_key(const E *p) { return OBJ(p) == g_key_obj && OFF(p) == g_key_off; }
#endif
static inline int64_t l0_rank_of(const E *p) {
  if (l0_is_key(p)) return g_key_rank;
  if (OBJ(p) == g_set_obj && OFF(p) >= g_set_off && (OFF(p) - g_set_off) / ESZ < g_set_n) return l0_rank_at((OFF(p) - g_set_off) / ESZ);
#ifdef KEY_AT_END
  /* emplace into the inline vector: the element just appended behind the old ones is the key */
  if (OBJ(p) == g_set_obj && OFF(p) >= g_set_off && (OFF(p) - g_set_off) / ESZ == g_set_n) return g_key_rank;
#endif
  g_unregistered_read = 1;
  L0_assert(0, "UNDECIDED: comparator applied to an object that is neither the key nor an element of the set");
  return nondet_int();
}
/* comparator call: bool GhostCmp::operator()(const E&, const E&) const */
static inline _Bool l0_cmp(int token, const E *a, const E *b) {
  L0_assert(token == g_set_cmp_token, "C03 C04: every ordering decision uses the comparator object the set was constructed with");
  l0_range_ok(a, 1, "lhs"); l0_range_ok(b, 1, "rhs");
  if (l0_cell_at(a) || l0_cell_at(b)) L0_assert(g_cell_st == ST_LIVE, "C02: compared elements are alive and not moved-from");
  g_ncmp++;
  return RANK_LT(l0_rank_of(a), l0_rank_of(b));
}
/* std::lower_bound(f, l, v, comp) on a range of the sorted sequence: prophecy + local postcondition of the algorithm
 *   r in [f,l], (r == f || comp(r[-1], v)), (r == l || !comp(*r, v));  cost <= g_lg + 1 comparator calls */
static inline const E *l0_bound(const E *f, const E *l, const E *v, int token, _Bool upper) {
  L0_assert(token == g_set_cmp_token, "C03 C04: every ordering decision uses the comparator object the set was constructed with");
  L0_assert(l0_is_key(v), "UNDECIDED: binary search for something that is not the key argument");
  uint64_t n = L0_COUNT(L0_PDIFF(l, f));
  uint64_t fi = 0;
  if (n) {
    L0_assert(OBJ(f) == g_set_obj && OFF(f) >= g_set_off && (OFF(f) - g_set_off) % ESZ == 0, "C03: binary search runs on the sorted sequence of the set");
    fi = (OFF(f) - g_set_off) / ESZ;
    L0_assert(fi + n <= g_set_n, "C03: binary search stays inside the set");
    l0_range_ok(f, n, "range");
    if (l0_cell_in(f, n)) L0_assert(g_cell_st == ST_LIVE, "C02: searched elements are alive");
  }
  L0_assert(g_lb_calls < 4, "UNDECIDED: more binary searches than prophecy variables");
  uint64_t r = g_lb[g_lb_calls < 4 ? g_lb_calls : 0];
  g_lb_calls++;
  __CPROVER_assume(r <= n);
  if (n) {
    if (!upper) {
      __CPROVER_assume(r == 0 || RANK_LT(l0_rank_at(fi + r - 1), g_key_rank));
      __CPROVER_assume(r == n || !RANK_LT(l0_rank_at(fi + r), g_key_rank));
    } else {
      __CPROVER_assume(r == 0 || !RANK_LT(g_key_rank, l0_rank_at(fi + r - 1)));
      __CPROVER_assume(r == n || RANK_LT(g_key_rank, l0_rank_at(fi + r)));
    }
  }
  uint64_t cost = nondet_u64();
  __CPROVER_assume(cost <= g_lg + 1);
  g_ncmp += cost;
  return L0_PADD(f, +, r);
}
/* std::find on the elements of a set decides with operator== of the elements: not the set's equivalence */
static inline const E *L0_find(const E *f, const E *l, const E *v) {
  (void)f; (void)v;
  L0_assert(0, "C03 C04: every ordering and equivalence decision uses the comparator object the set was constructed with (std::find compares with operator==)");
  return l;
}
/* a binary search that does not pass the set's comparator orders with operator< of the elements: another order */
static inline const E *l0_bound_no_cmp(const E *f, const E *l, const E *v) {
  (void)v;
  L0_assert(0, "C03 C04: every ordering decision uses the comparator object the set was constructed with (binary search without it)");
  return L0_COUNT(L0_PDIFF(l, f)) ? f : l;
}
#endif
