/* definitions of the ghost globals (one per verification unit) */
int l0_exc;
uint64_t g_cell_obj, g_cell_off; int g_cell_st, g_cell_val;
_Bool g_tok_on; uint64_t g_tok_obj, g_tok_off; int g_tokval;
uint64_t g_blk_obj, g_blk_bytes; int g_blk_state;
uint64_t g_nalloc, g_ndealloc, g_nrealloc, g_nctor, g_nassign, g_ndtor, g_nmove, g_nbytecopy, g_ncmp;
_Bool g_allow_elem_throw, g_allow_alloc_fail;
uint64_t g_cmp_obj1, g_cmp_off1, g_cmp_n1, g_cmp_obj2, g_cmp_off2, g_cmp_n2; int g_cmp_kind;
