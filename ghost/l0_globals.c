/* definitions of the ghost globals (one per verification unit) */
int l0_exc;
uint64_t g_cell_obj, g_cell_off; int g_cell_st, g_cell_val;
_Bool g_tok_on; uint64_t g_tok_obj, g_tok_off; int g_tokval;
uint64_t g_blk_obj, g_blk_bytes; int g_blk_state;
uint64_t g_nalloc, g_ndealloc, g_nrealloc, g_nctor, g_nassign, g_ndtor, g_nmove, g_nbytecopy, g_ncmp;
_Bool g_allow_elem_throw, g_allow_alloc_fail;
uint64_t g_tmp_obj; _Bool g_tmp_has; int g_tmp_val;
uint64_t g_cmp_obj1, g_cmp_off1, g_cmp_n1, g_cmp_obj2, g_cmp_off2, g_cmp_n2; int g_cmp_kind;

#ifdef WITH_SETS
uint64_t g_set_obj, g_set_off, g_set_n; int g_set_cmp_token; _Bool g_set_desc;
uint64_t g_reg_idx[NREG]; int64_t g_reg_rank[NREG];
uint64_t g_key_obj, g_key_off; int64_t g_key_rank;
uint64_t g_lb[4]; uint64_t g_lb_calls; _Bool g_unregistered_read; uint64_t g_lg;
_Bool g_has; uint64_t g_wit; uint64_t pre_ncmp; _Bool pre_ss_small, pre_ss_has; uint64_t pre_ss_size, pre_erased_idx;
#ifdef HAVE_pair_pE_b
struct aset g_as[2]; uint64_t g_as_nctor, g_as_ndtor; uint64_t pre_as0_n, pre_as1_n; _Bool pre_as0_has, pre_as1_has;
struct aset nondet_aset(void);
#endif
int64_t nondet_i64(void);
static void l0_havoc_sets(void) {
  g_set_obj = nondet_u64(); g_set_off = nondet_u64(); g_set_n = nondet_u64(); g_set_cmp_token = nondet_int(); g_set_desc = nondet_bool();
#define HAVOC_REG(k) g_reg_idx[k] = nondet_u64(); g_reg_rank[k] = nondet_i64();
  HAVOC_REG(0) HAVOC_REG(1) HAVOC_REG(2) HAVOC_REG(3) HAVOC_REG(4) HAVOC_REG(5) HAVOC_REG(6) HAVOC_REG(7) HAVOC_REG(8) HAVOC_REG(9)
  g_key_obj = nondet_u64(); g_key_off = nondet_u64(); g_key_rank = nondet_i64();
  g_lb[0] = nondet_u64(); g_lb[1] = nondet_u64(); g_lb[2] = nondet_u64(); g_lb[3] = nondet_u64();
  g_lb_calls = 0; g_unregistered_read = 0; g_lg = nondet_u64();
  __CPROVER_assume(g_lg < 64 && g_set_n < (1UL << 32) && g_set_off < (1UL << 40));
  g_has = nondet_bool(); g_wit = nondet_u64(); if (!g_has) g_wit = ~(uint64_t)0;
  pre_ss_small = nondet_bool(); pre_ss_has = nondet_bool(); pre_ss_size = nondet_u64(); pre_erased_idx = nondet_u64();
#ifdef HAVE_pair_pE_b
  g_as[0] = nondet_aset(); g_as[1] = nondet_aset(); g_as_nctor = 0; g_as_ndtor = 0; pre_as0_n = nondet_u64(); pre_as1_n = nondet_u64(); pre_as0_has = nondet_bool(); pre_as1_has = nondet_bool();
  __CPROVER_assume(g_as[0].n < (1UL << 16) && g_as[1].n < (1UL << 16));
#endif
  pre_ncmp = nondet_u64();
}
#endif

/* ghost state and logical variables are arbitrary at the start of every proof (statics would otherwise be zero) */
struct vsnap nondet_vsnap(void);
struct gsnap nondet_gsnap(void);
static void l0_havoc(void) {
  l0_exc = nondet_int();
  g_cell_obj = nondet_u64(); g_cell_off = nondet_u64(); g_cell_st = nondet_int(); g_cell_val = nondet_int();
  __CPROVER_assume(g_cell_off < (1UL << 40));
  __CPROVER_assume(g_cell_st == ST_RAW || g_cell_st == ST_LIVE || g_cell_st == ST_MOVED);
  g_tok_on = nondet_bool(); g_tok_obj = nondet_u64(); g_tok_off = nondet_u64(); g_tokval = nondet_int();
  __CPROVER_assume(g_tok_off < (1UL << 40));
  g_blk_obj = nondet_u64(); g_blk_bytes = nondet_u64(); g_blk_state = nondet_int();
  __CPROVER_assume(g_blk_state == BLK_NONE || g_blk_state == BLK_ALLOCATED || g_blk_state == BLK_FREED);
  g_nalloc = nondet_u64(); g_ndealloc = nondet_u64(); g_nrealloc = nondet_u64(); g_nctor = nondet_u64(); g_nassign = nondet_u64();
  g_ndtor = nondet_u64(); g_nmove = nondet_u64(); g_nbytecopy = nondet_u64(); g_ncmp = nondet_u64();
  /* counters far from wrap-around */
  __CPROVER_assume(g_nalloc < (1UL << 40) && g_ndealloc < (1UL << 40) && g_nrealloc < (1UL << 40) && g_nctor < (1UL << 40) &&
                   g_nassign < (1UL << 40) && g_ndtor < (1UL << 40) && g_nmove < (1UL << 40) && g_nbytecopy < (1UL << 40) && g_ncmp < (1UL << 40));
  g_tmp_obj = 0; g_tmp_has = 0; g_tmp_val = 0;
  g_allow_elem_throw = nondet_bool(); g_allow_alloc_fail = nondet_bool();
  g_N = nondet_u64(); g_N2 = nondet_u64(); g_alias = nondet_bool(); g_src = nondet_u64(); g_pos = nondet_u64(); g_pos2 = nondet_u64(); g_cnt = nondet_u64();
  __CPROVER_assume(g_src < (1UL << 32) && g_pos < (1UL << 32) && g_pos2 < (1UL << 32) && g_N < (1UL << 32) && g_N2 < (1UL << 32));
#ifdef WITH_SETS
  l0_havoc_sets();
#endif
  { E *nondet_pE(void); pre_p1 = nondet_pE(); pre_p2 = nondet_pE(); void *nondet_pv(void); g_other = nondet_pv(); g_int0 = nondet_int(); }
  pre_self = nondet_vsnap(); pre_o = nondet_vsnap(); pre_g = nondet_gsnap();
}
