/* Representation invariant and abstraction of FlatSet (and of the inline part of SmallSet) as macros; see l0_sets.h.
 * FS_T    lowered struct type of the FlatSet instantiation;  its sorted vector is an amc::vector (FLAVOUR == FL_STD). */
#ifndef INV_SETS_H
#define INV_SETS_H
#include "inv_sets_gen.h"
extern _Bool g_has;        /* an element equivalent to the key is present ... */
extern uint64_t g_wit;     /* ... at this index */
extern uint64_t pre_ncmp;

#define FS_VEC(s) (&(s)->_sortedVector)
#define FS_N(s) V_SIZE(FS_VEC(s))
#define FS_DATA(s) V_DATA(FS_VEC(s))
#define FS_AT(s, i) L0_PADD(FS_DATA(s), +, (i))
/* the set: its vector satisfies the vector invariant, the stored comparator is the one the ghost order refers to, the ghost
 * sequence is the vector's content, and the registered elements are strictly increasing under the stored comparator */
#define FS_REQ(s) (V_FRESH(s, sizeof(*(s))) && V_WORDS_OK(FS_VEC(s)) && (V_HEAP(FS_VEC(s)) ==> V_FRESH(DYNP(FS_VEC(s)), V_HEAP_BYTES(FS_VEC(s)))) && \
                   V_ALIGN_OK(FS_VEC(s)) && V_CELL_OK(FS_VEC(s)) && V_TOK_OK(FS_VEC(s)) && V_BLK_OK(FS_VEC(s)) && \
                   (s)->_base0.token == g_set_cmp_token && g_set_obj == OBJ(FS_DATA(s)) && g_set_off == OFF(FS_DATA(s)) && g_set_n == FS_N(s) && REG_SORTED)
/* key argument */
#define KEY_REQ(k) (V_FRESH(k, ESZ) && EXT_OK(k) && g_key_obj == OBJ(k) && g_key_off == OFF(k))
/* presence of an equivalent element: witness index, or no registered element is equivalent */
#define HAS_REQ (g_has ? (g_wit < g_set_n && REG_HAS(g_wit) && REG_RANK(g_wit) == g_key_rank) : REG_NONE_EQUIV)
/* slot k of the registry holds index i (fixed roles keep the solver away from a combinatorial search over slot assignments);
 * an index outside the sequence means 'unused' */
#define REG_SLOT(k, i) (g_reg_idx[k] == (uint64_t)(i))
#define REG_UNUSED_FROM(k0) (((k0) > 0 || g_reg_idx[0] == ~(uint64_t)0) && ((k0) > 1 || g_reg_idx[1] == ~(uint64_t)0) && ((k0) > 2 || g_reg_idx[2] == ~(uint64_t)0) && \
  ((k0) > 3 || g_reg_idx[3] == ~(uint64_t)0) && ((k0) > 4 || g_reg_idx[4] == ~(uint64_t)0) && ((k0) > 5 || g_reg_idx[5] == ~(uint64_t)0) && ((k0) > 6 || g_reg_idx[6] == ~(uint64_t)0) && \
  ((k0) > 7 || g_reg_idx[7] == ~(uint64_t)0) && ((k0) > 8 || g_reg_idx[8] == ~(uint64_t)0) && ((k0) > 9 || g_reg_idx[9] == ~(uint64_t)0))
/* slots k, k+1 hold r-1 and r */
#define REG_PAIR(k, r) (REG_SLOT(k, (r) - 1) && REG_SLOT((k) + 1, r))
/* indices that the operation may consult must be registered (r-1 and r for each binary search result r) */
#define REG_AROUND(r) (((r) == 0 || (r) - 1 >= g_set_n || REG_HAS((r) - 1)) && ((r) >= g_set_n || REG_HAS(r)))
/* inserting at index p keeps the sequence strictly increasing: both neighbours are strictly on their side of the key */
#define NEIGHBOUR_OK(p) (((p) == 0 || (REG_HAS((p) - 1) && RANK_LT(REG_RANK((p) - 1), g_key_rank))) && ((p) == g_set_n || (REG_HAS(p) && RANK_LT(g_key_rank, REG_RANK(p)))))
#define EQUIV_AT(p) ((p) < g_set_n && REG_HAS(p) && REG_RANK(p) == g_key_rank)
/* index designated by a returned iterator (post-state buffer) */
#define RET_IDX(it) ((uint64_t)(L0_PDIFF((const E *)(it), (const E *)FS_DATA(self))))
/* the hint is the exact insertion position of the key */
#define HINT_CORRECT ((g_pos == 0 || RANK_LT(REG_RANK(g_pos - 1), g_key_rank)) && (g_pos == g_set_n || RANK_LT(g_key_rank, REG_RANK(g_pos))))
/* first test of insert_hint: the hint is end() or its element is not before the key */
#define HINT_A (g_pos == g_set_n || !RANK_LT(REG_RANK(g_pos), g_key_rank))
#define LG_COST_OK(extra) (g_ncmp <= pre_ncmp + 2 * g_lg + (extra))

/* constructors that take a comparator store a copy of it (units define FS_CTOR_HAS_CMP) */
#ifdef FS_CTOR_HAS_CMP
#define FS_CTOR_CMP_OK (self->_base0.token == comp->token)
#define FS_CTOR_REQ V_FRESH(comp, sizeof(*comp))
#else
#define FS_CTOR_CMP_OK 1
#define FS_CTOR_REQ 1
#endif
/* a node handle argument: engaged exactly when g_alias, its value being the key; nothing else tracked lives in the node */
#define NODE_VAL(nh) (&(nh)->_optV._val)
#define NODE_REQ(nh) (NODE_SHAPE(nh) && g_key_obj == OBJ(nh) && g_key_off == OFF(NODE_VAL(nh)))
#define PRE_TOK_IN_NODE(nh) (pre_g.tok_on && pre_g.tok_obj == OBJ(nh) && pre_g.tok_off == OFF(NODE_VAL(nh)))
#define NODE_SHAPE(nh) (V_FRESH(nh, sizeof(*(nh))) && (nh)->_optV._engaged == g_alias && \
                      (g_cell_obj != OBJ(nh) || (g_cell_off == OFF(NODE_VAL(nh)) && g_cell_st == (g_alias ? ST_LIVE : ST_RAW))) && \
                      (!g_tok_on || g_tok_obj != OBJ(nh) || (g_alias && g_tok_off == OFF(NODE_VAL(nh)))) && g_blk_obj != OBJ(nh))
/* a node under construction (result slot) */
#define NODE_RAW(r) (V_FRESH(r, sizeof(*(r))) && (g_cell_obj != OBJ(r) || (g_cell_st == ST_RAW && g_cell_off == OFF(NODE_VAL(r)))) && !(g_tok_on && g_tok_obj == OBJ(r)) && g_blk_obj != OBJ(r))
/* an insert_return_type under construction: raw object whose node member will hold the value slot */
#define IRT_RAW(r) (V_FRESH(r, sizeof(*(r))) && (g_cell_obj != OBJ(r) || (g_cell_st == ST_RAW && g_cell_off == OFF(NODE_VAL(&(r)->node)))) && !(g_tok_on && g_tok_obj == OBJ(r)) && g_blk_obj != OBJ(r))
/* a node in the post-state: its value slot is alive exactly when it is engaged */
#define NODE_OK(nh) (g_cell_obj != OBJ(nh) || g_cell_off != OFF(NODE_VAL(nh)) || (g_cell_st == ((nh)->_optV._engaged ? ST_LIVE : ST_RAW)))

/* ------------------------------------------------------------------------------------------------ SmallSet
 * SS_T: lowered SmallSet struct { VecType _vec (FixedCapacityVector<T,N,Unchecked>, FLAVOUR == FL_STATIC); SetType _set }.
 * The inline elements are ALL registered (N <= 4: slots 0..3 hold indices 0..3) and pairwise non-equivalent; the large state
 * is the abstract set g_as[0] (SetSpec, ghost/l0_aset.h).  Invariant: never both non-empty. */
#ifdef SS_T
#define SS_VEC(s) (&(s)->_vec)
#define SS_VN(s) V_SIZE(SS_VEC(s))
#define SS_SMALL(s) (g_as[0].n == 0)
#define AS_OK(k, setp) (g_as[k].obj == OBJ(setp) && g_as[k].off == OFF(setp) && V_FRESH(g_as[k].buf, (g_as[k].n + ASET_ROOM) * ESZ) && (!g_as[k].has || g_as[k].pos < g_as[k].n) && \
                        g_cell_obj != OBJ(g_as[k].buf) && !(g_tok_on && g_tok_obj == OBJ(g_as[k].buf)) && g_blk_obj != OBJ(g_as[k].buf))
#define SS_REQ(s) (V_FRESH(s, sizeof(*(s))) && g_N == SS_N && V_WORDS_OK(SS_VEC(s)) && V_ALIGN_OK(SS_VEC(s)) && V_CELL_OK(SS_VEC(s)) && V_TOK_OK(SS_VEC(s)) && \
                   g_set_obj == OBJ(V_DATA(SS_VEC(s))) && g_set_off == OFF(V_DATA(SS_VEC(s))) && g_set_n == SS_VN(s) && \
                   REG_SLOT(0, 0) && REG_SLOT(1, 1) && REG_SLOT(2, 2) && REG_SLOT(3, 3) && REG_UNUSED_FROM(4) && REG_DISTINCT && \
                   AS_OK(0, &(s)->_set) && (SS_VN(s) == 0 || g_as[0].n == 0))
/* a second SmallSet operand (swap): memory shape, vector invariant and its abstract set g_as[1]; no ranks needed */
#define SS_REQ2(o) (V_FRESH(o, sizeof(*(o))) && V_WORDS_OK(SS_VEC(o)) && V_ALIGN_OK(SS_VEC(o)) && V_CELL_OK(SS_VEC(o)) && V_TOK_OK(SS_VEC(o)) && \
                    AS_OK(1, &(o)->_set) && (SS_VN(o) == 0 || g_as[1].n == 0))
/* the key's class is present (abstraction over both states) */
#define SS_HAS_INLINE ((g_set_n > 0 && g_reg_rank[0] == g_key_rank) || (g_set_n > 1 && g_reg_rank[1] == g_key_rank) || (g_set_n > 2 && g_reg_rank[2] == g_key_rank) || (g_set_n > 3 && g_reg_rank[3] == g_key_rank))
#define SS_INLINE_IDX (g_set_n > 0 && g_reg_rank[0] == g_key_rank ? 0 : (g_set_n > 1 && g_reg_rank[1] == g_key_rank ? 1 : (g_set_n > 2 && g_reg_rank[2] == g_key_rank ? 2 : 3)))
/* post-state observers */
#define SS_SIZE(s) (SS_SMALL(s) ? SS_VN(s) : g_as[0].n)
#define SS_POST(s) (V_WORDS_OK(SS_VEC(s)) && V_CELL_OK(SS_VEC(s)) && V_TOK_OK(SS_VEC(s)) && (SS_VN(s) == 0 || g_as[0].n == 0) && (!g_as[0].has || g_as[0].pos < g_as[0].n))
#define SS_END(s) (SS_SMALL(s) ? (const E *)L0_PADD(V_DATA(SS_VEC(s)), +, SS_VN(s)) : (const E *)L0_PADD(g_as[0].buf, +, g_as[0].n))
/* result predicates (RESULT_KIND selects the observer under proof: 1 find, 2 contains/count, 3 size, 4 empty, 5 begin, 6 end) */
#define SS_FIND_SPEC(s) (SS_SMALL(s) ? (SS_HAS_INLINE ? (const E *)L0_PADD(V_DATA(SS_VEC(s)), +, SS_INLINE_IDX) : SS_END(s)) : (g_as[0].has ? (const E *)L0_PADD(g_as[0].buf, +, g_as[0].pos) : SS_END(s)))
#if RESULT_KIND == 1
#define SS_LOOKUP_RESULT_OK(r) ((const E *)(r) == SS_FIND_SPEC(self))
#else
#define SS_LOOKUP_RESULT_OK(r) (((r) != 0) == (pre_ss_has != 0) && (r) <= 1)
#endif
#if RESULT_KIND == 4
#define SS_SIZE_RESULT_OK(r) (((r) != 0) == (pre_ss_size == 0))
#else
#define SS_SIZE_RESULT_OK(r) ((uint64_t)(r) == pre_ss_size)
#endif
#if RESULT_KIND == 5
#define SS_ITER_RESULT_OK(r) ((const E *)(r) == (SS_SMALL(self) ? (const E *)V_DATA(SS_VEC(self)) : (const E *)g_as[0].buf) && (((const E *)(r) == SS_END(self)) == (pre_ss_size == 0)))
#else
#define SS_ITER_RESULT_OK(r) ((const E *)(r) == SS_END(self))
#endif
#define SS_HAS_NOW(s) (SS_SMALL(s) ? SS_HAS_INLINE_NOW(s) : g_as[0].has)
/* presence among the post-state inline elements: the old ones keep their ranks, an appended element is the key */
#define SS_HAS_INLINE_NOW(s) (SS_VN(s) > g_set_n ? 1 : ((SS_VN(s) > 0 && SS_RANK_NOW(s, 0) == g_key_rank) || (SS_VN(s) > 1 && SS_RANK_NOW(s, 1) == g_key_rank) || (SS_VN(s) > 2 && SS_RANK_NOW(s, 2) == g_key_rank) || (SS_VN(s) > 3 && SS_RANK_NOW(s, 3) == g_key_rank)))
/* rank of post-state inline element i: erase(key) removes the element at SS_INLINE_IDX and shifts the tail down */
#define SS_RANK_NOW(s, i) (SS_VN(s) < g_set_n && (i) >= pre_erased_idx ? g_reg_rank[((i) + 1) & 3] : g_reg_rank[(i) & 3])
#define SS_IT_DESIGNATES_KEY(s, it) (SS_SMALL(s) ? (OBJ(it) == OBJ(V_DATA(SS_VEC(s))) && OFF(it) >= OFF(V_DATA(SS_VEC(s))) && (OFF(it) - OFF(V_DATA(SS_VEC(s)))) / ESZ < SS_VN(s) && \
                                      (((OFF(it) - OFF(V_DATA(SS_VEC(s)))) / ESZ >= g_set_n) || g_reg_rank[((OFF(it) - OFF(V_DATA(SS_VEC(s)))) / ESZ) & 3] == g_key_rank)) \
                                    : (g_as[0].has && (const E *)(it) == (const E *)L0_PADD(g_as[0].buf, +, g_as[0].pos)))
#define SS_VALID_POS(s, it) (SS_SMALL(s) ? (SS_VN(s) > 0 && g_pos < SS_VN(s) && (const E *)(it) == (const E *)L0_PADD(V_DATA(SS_VEC(s)), +, g_pos)) \
                                         : (g_pos < g_as[0].n && (const E *)(it) == (const E *)L0_PADD(g_as[0].buf, +, g_pos)))
#define SS_IT_VALID_OR_END(s, it) (SS_SMALL(s) ? (OBJ(it) == OBJ(V_DATA(SS_VEC(s))) && OFF(it) >= OFF(V_DATA(SS_VEC(s))) && (OFF(it) - OFF(V_DATA(SS_VEC(s)))) / ESZ <= SS_VN(s)) \
                                               : (OBJ(it) == OBJ(g_as[0].buf) && OFF(it) >= OFF(g_as[0].buf) && (OFF(it) - OFF(g_as[0].buf)) / ESZ <= g_as[0].n))
extern uint64_t pre_erased_idx;
/* logical variables: pre-state abstraction */
extern _Bool pre_ss_small, pre_ss_has; extern uint64_t pre_ss_size;
#define SS_BIND(s) (pre_ss_small == (SS_SMALL(s) ? 1 : 0) && pre_ss_has == ((SS_SMALL(s) ? SS_HAS_INLINE : g_as[0].has) ? 1 : 0) && pre_ss_size == SS_SIZE(s))
#endif
#endif
