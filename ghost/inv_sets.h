/* Representation invariant and abstraction of FlatSet (and of the inline part of SmallSet) as macros; see l0_sets.h.
 * FS_T    lowered struct type of the FlatSet instantiation;  its sorted vector is an amc::vector (FLAVOUR == FL_STD). */
#ifndef INV_SETS_H
#define INV_SETS_H
#include "inv_sets_gen.h"
extern _Bool g_has;        /* an element equivalent to the key is present ... */
extern uint64_t g_wit;     /* ... at this index */
extern uint64_t pre_ncmp;

#define FS_VEC(s) (&(s)->_sortedVector)
#define FS_N(s) V_SIZE(FS_VEC(s))
#define FS_DATA(s) V_DATA(FS_VEC(s))
#define FS_AT(s, i) L0_PADD(FS_DATA(s), +, (i))
/* the set: its vector satisfies the vector invariant, the stored comparator is the one the ghost order refers to, the ghost
 * sequence is the vector's content, and the registered elements are strictly increasing under the stored comparator */
#define FS_REQ(s) (V_FRESH(s, sizeof(*(s))) && V_WORDS_OK(FS_VEC(s)) && (V_HEAP(FS_VEC(s)) ==> V_FRESH(DYNP(FS_VEC(s)), V_HEAP_BYTES(FS_VEC(s)))) && \
                   V_ALIGN_OK(FS_VEC(s)) && V_CELL_OK(FS_VEC(s)) && V_TOK_OK(FS_VEC(s)) && V_BLK_OK(FS_VEC(s)) && \
                   (s)->_base0.token == g_set_cmp_token && g_set_obj == OBJ(FS_DATA(s)) && g_set_off == OFF(FS_DATA(s)) && g_set_n == FS_N(s) && REG_SORTED)
/* key argument */
#define KEY_REQ(k) (V_FRESH(k, ESZ) && EXT_OK(k) && g_key_obj == OBJ(k) && g_key_off == OFF(k))
/* presence of an equivalent element: witness index, or no registered element is equivalent */
#define HAS_REQ (g_has ? (g_wit < g_set_n && REG_HAS(g_wit) && REG_RANK(g_wit) == g_key_rank) : REG_NONE_EQUIV)
/* slot k of the registry holds index i (fixed roles keep the solver away from a combinatorial search over slot assignments);
 * an index outside the sequence means 'unused' */
#define REG_SLOT(k, i) (g_reg_idx[k] == (uint64_t)(i))
#define REG_UNUSED_FROM(k0) (((k0) > 0 || g_reg_idx[0] == ~(uint64_t)0) && ((k0) > 1 || g_reg_idx[1] == ~(uint64_t)0) && ((k0) > 2 || g_reg_idx[2] == ~(uint64_t)0) && \
  ((k0) > 3 || g_reg_idx[3] == ~(uint64_t)0) && ((k0) > 4 || g_reg_idx[4] == ~(uint64_t)0) && ((k0) > 5 || g_reg_idx[5] == ~(uint64_t)0) && ((k0) > 6 || g_reg_idx[6] == ~(uint64_t)0) && \
  ((k0) > 7 || g_reg_idx[7] == ~(uint64_t)0) && ((k0) > 8 || g_reg_idx[8] == ~(uint64_t)0) && ((k0) > 9 || g_reg_idx[9] == ~(uint64_t)0))
/* slots k, k+1 hold r-1 and r */
#define REG_PAIR(k, r) (REG_SLOT(k, (r) - 1) && REG_SLOT((k) + 1, r))
/* indices that the operation may consult must be registered (r-1 and r for each binary search result r) */
#define REG_AROUND(r) (((r) == 0 || (r) - 1 >= g_set_n || REG_HAS((r) - 1)) && ((r) >= g_set_n || REG_HAS(r)))
/* inserting at index p keeps the sequence strictly increasing: both neighbours are strictly on their side of the key */
#define NEIGHBOUR_OK(p) (((p) == 0 || (REG_HAS((p) - 1) && RANK_LT(REG_RANK((p) - 1), g_key_rank))) && ((p) == g_set_n || (REG_HAS(p) && RANK_LT(g_key_rank, REG_RANK(p)))))
#define EQUIV_AT(p) ((p) < g_set_n && REG_HAS(p) && REG_RANK(p) == g_key_rank)
/* index designated by a returned iterator (post-state buffer) */
#define RET_IDX(it) ((uint64_t)(L0_PDIFF((const E *)(it), (const E *)FS_DATA(self))))
/* the hint is the exact insertion position of the key */
#define HINT_CORRECT ((g_pos == 0 || RANK_LT(REG_RANK(g_pos - 1), g_key_rank)) && (g_pos == g_set_n || RANK_LT(g_key_rank, REG_RANK(g_pos))))
/* first test of insert_hint: the hint is end() or its element is not before the key */
#define HINT_A (g_pos == g_set_n || !RANK_LT(REG_RANK(g_pos), g_key_rank))
#define LG_COST_OK(extra) (g_ncmp <= pre_ncmp + 2 * g_lg + (extra))
#endif
