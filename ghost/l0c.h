/* L0, CONCRETE variant -- used only by the BOUNDED stand-ins (units flagged 'bounded' in contracts/units.py; never counted as
 * proved).  The element is a real object: its first 8 bytes hold an integer rank, or one of two poison values that mark raw
 * (never constructed / destroyed) and moved-from storage.  The std:: algorithms are ordinary loops, allocation is CBMC's malloc
 * (real object bounds), the comparator orders ranks.  The loops of the code under check and of these primitives are unwound up
 * to the stated bound with unwinding assertions on.  Same primitive names and signatures as ghost/l0.h. */
#ifndef L0C_H
#define L0C_H
#include <stdint.h>
#include <stddef.h>
#ifndef ESZ
#error "ESZ not defined"
#endif
#if ESZ != 8
#error "the bounded stand-ins are written for an 8-byte element"
#endif
typedef union { unsigned char b[ESZ]; int64_t r; } E;      /* same size as the opaque element; the rank is read as a word */
enum { L0_EXC_NONE = 0, L0_EXC_OUT_OF_RANGE = 1, L0_EXC_OVERFLOW = 2, L0_EXC_BAD_ALLOC = 3, L0_EXC_ELEM = 4 };
extern int l0_exc;
extern uint64_t g_nalloc, g_ndealloc, g_nrealloc, g_nctor, g_nassign, g_ndtor, g_nmove, g_nbytecopy, g_ncmp;
extern _Bool g_allow_elem_throw, g_allow_alloc_fail;
int nondet_int(void);
_Bool nondet_bool(void);
uint64_t nondet_u64(void);
int64_t nondet_i64(void);
void *malloc(size_t);
void free(void *);

#define OBJ(p) ((uint64_t)__CPROVER_POINTER_OBJECT(p))
#define OFF(p) ((uint64_t)__CPROVER_POINTER_OFFSET(p))
#define L0_assert(c, msg) __CPROVER_assert((c), msg)
#define L0_PADD(p, op, n) ((n) == 0 ? (p) : ((p) op (n)))
#define L0_PDIFF(a, b) ((a) == (b) ? (int64_t)0 : (int64_t)((a) - (b)))
#define L0_PTR_CMP(a, op, b) (OBJ(a) == OBJ(b) ? (OFF(a) op OFF(b)) : (OBJ(a) op OBJ(b)))
#define L0_COUNT(n) ((n) > 0 ? (uint64_t)(n) : (uint64_t)0)

/* element payload */
#define RK(p) (((E *)(p))->r)
/* byte-periodic poison values: any 8-byte window of storage filled with the byte reads as the poison */
#define C_RAW_BYTE 0xA5
#define C_RAW (-0x5A5A5A5A5A5A5A5BL)       /* bit pattern 0xA5A5A5A5A5A5A5A5 */
#define C_MOVED (0x5A5A5A5A5A5A5A5AL)
#ifndef L0C_MAXN
#define L0C_MAXN 8          /* largest block (in elements) the bounded stand-ins may allocate */
#endif
static inline _Bool c_alive(const E *p) { return RK(p) != C_RAW && RK(p) != C_MOVED; }
static inline _Bool l0_elem_throws(void) { if (g_allow_elem_throw && nondet_bool()) { l0_exc = L0_EXC_ELEM; return 1; } return 0; }

/* ------------------------------------------------------------------------------------------------ single elements */
static inline void L0_E_copy_construct(E *d, const E *s) {
  L0_assert(c_alive(s), "C02 C10: copy source is alive and not moved-from");
  L0_assert(RK(d) == C_RAW, "C02: construct only on raw memory");
  if (l0_elem_throws()) return;
  RK(d) = RK(s); g_nctor++;
}
static inline void L0_E_move_construct(E *d, E *s) {
  L0_assert(d != s, "C01 C02: never move-constructed onto itself");
  L0_assert(c_alive(s), "C02 C10: move source is alive and not moved-from");
  L0_assert(RK(d) == C_RAW, "C02: construct only on raw memory");
  RK(d) = RK(s); RK(s) = C_MOVED; g_nctor++; g_nmove++;
}
static inline void L0_E_value_construct(E *d) { L0_assert(RK(d) == C_RAW, "C02: construct only on raw memory"); if (l0_elem_throws()) return; RK(d) = 0; g_nctor++; }
static inline void L0_E_construct_from__i32(E *d, int a) { L0_assert(RK(d) == C_RAW, "C02: construct only on raw memory"); if (l0_elem_throws()) return; RK(d) = a; g_nctor++; }
static inline void L0_E_copy_assign(E *d, const E *s) {
  L0_assert(c_alive(s), "C02 C10: assignment source is alive and not moved-from");
  L0_assert(RK(d) != C_RAW, "C02: assign only onto a constructed object");
  if (d == s) return;
  if (l0_elem_throws()) return;
  RK(d) = RK(s); g_nassign++;
}
static inline void L0_E_move_assign(E *d, E *s) {
  L0_assert(d != s, "C01 C02: an element is never move-assigned onto itself");
  L0_assert(c_alive(s), "C02 C10: move source is alive and not moved-from");
  L0_assert(RK(d) != C_RAW, "C02: assign only onto a constructed object");
  RK(d) = RK(s); RK(s) = C_MOVED; g_nassign++; g_nmove++;
}
static inline void L0_E_destroy(E *p) { L0_assert(RK(p) != C_RAW, "C02: destroyed exactly once (object is alive)"); RK(p) = C_RAW; g_ndtor++; }
static inline void L0_destroy_at(E *p) { L0_E_destroy(p); }
static inline void L0_E_swap(E *a, E *b) { L0_assert(a != b && c_alive(a) && c_alive(b), "C02: swapped elements are alive"); int64_t t = RK(a); RK(a) = RK(b); RK(b) = t; g_nmove += 3; }
static inline E *L0_construct_at__pE_rE(E *p, const E *v) { L0_E_copy_construct(p, v); return p; }
static inline E *L0_construct_at__pE_rrE(E *p, E *v) { L0_E_move_construct(p, v); return p; }

/* ------------------------------------------------------------------------------------------------ ranges */
static inline E *L0_move(E *f, E *l, E *d) { uint64_t n = L0_COUNT(L0_PDIFF(l, f)); for (uint64_t i = 0; i < n; i++) L0_E_move_assign(d + i, f + i); return L0_PADD(d, +, n); }
static inline E *L0_move_backward(E *f, E *l, E *dl) { uint64_t n = L0_COUNT(L0_PDIFF(l, f)); for (uint64_t i = 0; i < n; i++) L0_E_move_assign(dl - 1 - i, l - 1 - i); return L0_PADD(dl, -, n); }
static inline E *l0_uninit_move_n(E *f, int64_t cnt, E *d) { uint64_t n = L0_COUNT(cnt); for (uint64_t i = 0; i < n; i++) L0_E_move_construct(d + i, f + i); return L0_PADD(d, +, n); }
static inline E *L0_uninitialized_copy_n(const E *f, int64_t cnt, E *d) {
  uint64_t n = L0_COUNT(cnt), i = 0;
  for (; i < n; i++) { L0_E_copy_construct(d + i, f + i); if (l0_exc) break; }
  if (l0_exc) { for (uint64_t j = 0; j < i; j++) L0_E_destroy(d + j); return d; }
  return L0_PADD(d, +, n);
}
static inline E *L0_uninitialized_copy(const E *f, const E *l, E *d) { return L0_uninitialized_copy_n(f, L0_PDIFF(l, f), d); }
static inline E *L0_copy_n(const E *f, int64_t cnt, E *d) { uint64_t n = L0_COUNT(cnt); for (uint64_t i = 0; i < n; i++) { L0_E_copy_assign(d + i, f + i); if (l0_exc) return d; } return L0_PADD(d, +, n); }
static inline E *L0_copy(const E *f, const E *l, E *d) { return L0_copy_n(f, L0_PDIFF(l, f), d); }
static inline E *L0_destroy_n(E *f, int64_t cnt) { uint64_t n = L0_COUNT(cnt); for (uint64_t i = 0; i < n; i++) L0_E_destroy(f + i); return L0_PADD(f, +, n); }
static inline void L0_destroy(E *f, E *l) { (void)L0_destroy_n(f, L0_PDIFF(l, f)); }

/* ------------------------------------------------------------------------------------------------ allocation */
/* every block has the same physical size (L0C_MAXN elements, all raw at first): constant-size objects keep the formula small;
 * the logical size requested must fit, and a write beyond it lands on a raw slot that the final checks find */
static inline void *L0_malloc(uint64_t bytes) {
  if (g_allow_alloc_fail && nondet_bool()) return (void *)0;
  L0_assert(bytes <= (uint64_t)L0C_MAXN * ESZ, "UNDECIDED: bounded stand-in: block larger than the bound");
  __CPROVER_assume(bytes <= (uint64_t)L0C_MAXN * ESZ);
  E *p = (E *)malloc((uint64_t)L0C_MAXN * ESZ);
  __CPROVER_assume(p != (E *)0);
  __CPROVER_array_set((unsigned char *)p, (unsigned char)C_RAW_BYTE);
  g_nalloc++;
  return p;
}
static inline void L0_free(void *p) {
  if (p == (void *)0) return;
  L0_assert(OFF(p) == 0, "C06: only the start of a block is handed back");
  for (uint64_t i = 0; i < L0C_MAXN; i++) L0_assert(((E *)p)[i].r == C_RAW, "C02 C06: no live element in a block that is handed back");
  free(p); g_ndealloc++;
}
static inline void *L0_SimpleAllocator__allocate__u64(void *a, uint64_t bytes) {
  (void)a; void *p = L0_malloc(bytes);
  if (p == (void *)0) { l0_exc = L0_EXC_BAD_ALLOC; return p; }
  return p;
}
#define L0_SimpleAllocator__deallocate__pE_u64 L0_SimpleAllocator__deallocate__pv_u64
static inline void L0_SimpleAllocator__deallocate__pv_u64(void *a, void *p, uint64_t bytes) {
  (void)a;
  (void)bytes;      /* the exact-size discipline of the basic allocator is proved in the ghost-mode units of the base classes */
  L0_free(p);
}
/* a local object that has just come into existence: all its bytes are raw storage */
static inline void L0_fresh_local(const void *p, uint64_t bytes) { (void)bytes; __CPROVER_array_set((unsigned char *)p, (unsigned char)C_RAW_BYTE); }
#define L0_FRESH_LOCAL_S(tag, p) L0_fresh_local((p), sizeof(*(p)))
static inline void L0_assert_fail(void) { L0_assert(0, "C16: an assert() of the headers holds"); }
static inline void L0_terminate(void) { L0_assert(0, "C13 C17: no exception escapes a noexcept function (std::terminate)"); }
static inline void L0_missing_return(void) { L0_assert(0, "C15 C16: control reaches the end of a non-void function"); }
#endif
