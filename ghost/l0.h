/* L0: the assumed layer.  Ghost semantics of element special members, std:: algorithms, memcpy/memmove, malloc/free.
 *
 * One arbitrary element cell, one arbitrary value token and one arbitrary allocator block are tracked (skolemised ghost
 * state, DESIGN.md 2.4/2.6).  Every primitive (a) asserts what the C++ standard requires of the call on the tracked
 * entities -- these assertions are the C02/C06/... obligations -- and (b) updates the tracked entities as the standard
 * specifies, including the partial effects when the operation throws (throw oracle = nondeterministic choice).
 *
 * Compile-time parameters (from facts_<elem>.json, computed by the real compiler on the real headers):
 *   ESZ                sizeof(element)
 *   CAT_TC             std::is_trivially_copyable<E>
 *   CAT_TR             amc::is_trivially_relocatable<E>
 *   CAT_NOTHROW_MOVE   nothrow move construction / assignment
 */
#ifdef L0_CONCRETE
#include "l0c.h"
#define L0_H
#endif
#ifndef L0_H
#define L0_H
#include <stdint.h>
#include <stddef.h>

#ifndef ESZ
#error "ESZ not defined"
#endif
typedef struct { unsigned char b[ESZ]; } E;

enum { L0_EXC_NONE = 0, L0_EXC_OUT_OF_RANGE = 1, L0_EXC_OVERFLOW = 2, L0_EXC_BAD_ALLOC = 3, L0_EXC_ELEM = 4 };
enum { ST_RAW = 0, ST_LIVE = 1, ST_MOVED = 2 };
enum { BLK_NONE = 0, BLK_ALLOCATED = 1, BLK_FREED = 2 };
#define L0_VAL_INIT (-7)

extern int l0_exc;
/* tracked cell */
extern uint64_t g_cell_obj, g_cell_off;
extern int g_cell_st, g_cell_val;
/* tracked token */
extern _Bool g_tok_on;
extern uint64_t g_tok_obj, g_tok_off;
extern int g_tokval;
/* tracked block */
extern uint64_t g_blk_obj, g_blk_bytes;
extern int g_blk_state;
/* counters */
extern uint64_t g_nalloc, g_ndealloc, g_nrealloc, g_nctor, g_nassign, g_ndtor, g_nmove, g_nbytecopy, g_ncmp;
/* throw oracle switches (harness may pin them) */
extern _Bool g_allow_elem_throw, g_allow_alloc_fail;
/* value held by the most recently declared local temporary (values that flow through an untracked temporary) */
extern uint64_t g_tmp_obj; extern _Bool g_tmp_has; extern int g_tmp_val;
/* last comparison ranges (operator== / operator<) */
extern uint64_t g_cmp_obj1, g_cmp_off1, g_cmp_n1, g_cmp_obj2, g_cmp_off2, g_cmp_n2;
extern int g_cmp_kind;

int nondet_int(void);
_Bool nondet_bool(void);
uint64_t nondet_u64(void);

#define OBJ(p) ((uint64_t)__CPROVER_POINTER_OBJECT(p))
#define OFF(p) ((uint64_t)__CPROVER_POINTER_OFFSET(p))
#define L0_assert(c, msg) __CPROVER_assert((c), msg)

/* ------------------------------------------------------------------------------------------------ location helpers */
static inline _Bool l0_in(uint64_t obj, uint64_t off, const E *first, uint64_t n) {
  return n != 0 && obj == OBJ(first) && off >= OFF(first) && off - OFF(first) < n * (uint64_t)ESZ;
}
static inline _Bool l0_cell_at(const E *p) { return g_cell_obj == OBJ(p) && g_cell_off == OFF(p); }
static inline _Bool l0_tok_at(const E *p) { return g_tok_on && g_tok_obj == OBJ(p) && g_tok_off == OFF(p); }
static inline _Bool l0_cell_in(const E *first, uint64_t n) { return l0_in(g_cell_obj, g_cell_off, first, n); }
static inline _Bool l0_tok_in(const E *first, uint64_t n) { return g_tok_on && l0_in(g_tok_obj, g_tok_off, first, n); }
/* value stored at a location: known only for the token and for the tracked cell */
static inline int l0_valat(uint64_t obj, uint64_t off) {
  if (g_tok_on && g_tok_obj == obj && g_tok_off == off) return g_tokval;
  if (g_cell_obj == obj && g_cell_off == off && g_cell_st == ST_LIVE) return g_cell_val;
  if (g_tmp_has && g_tmp_obj == obj && off == 0) return g_tmp_val;     /* value parked in the most recent local temporary */
  return nondet_int();
}
static inline void l0_range_ok(const E *p, uint64_t n, const char *what) {
  (void)what;
  if (n != 0) {
    L0_assert(__CPROVER_r_ok(p, n * (uint64_t)ESZ), "C02 C08: element range lies inside a live object");
    if (g_blk_state == BLK_FREED)
      L0_assert(OBJ(p) != g_blk_obj, "C02 C06: no element access in a block that was handed back");
    if (!CAT_TC)
      L0_assert(OBJ(p) != g_cell_obj || ((OFF(p) >= g_cell_off ? OFF(p) - g_cell_off : g_cell_off - OFF(p)) % ESZ) == 0,
                "C02: element pointer is aligned with the element grid of its buffer");
  }
}
/* pointer idioms of the real code that CBMC's pointer checks would flag although C++ defines them (or every implementation does) */
#define L0_PADD(p, op, n) ((n) == 0 ? (p) : ((p) op (n)))
#define L0_PDIFF(a, b) ((a) == (b) ? (int64_t)0 : (int64_t)((a) - (b)))
#define L0_PTR_CMP(a, op, b) (OBJ(a) == OBJ(b) ? (OFF(a) op OFF(b)) : (OBJ(a) op OBJ(b)))
#define L0_COUNT(n) ((n) > 0 ? (uint64_t)(n) : (uint64_t)0)

#if CAT_TC
#define ST_OK_CONSTRUCT(st) 1
#define ST_OK_ASSIGN(st) 1
#define ST_OK_DESTROY(st) 1
#else
#define ST_OK_CONSTRUCT(st) ((st) == ST_RAW)
#define ST_OK_ASSIGN(st) ((st) != ST_RAW)
#define ST_OK_DESTROY(st) ((st) != ST_RAW)
#endif

static inline _Bool l0_elem_throws(void) {
  if (g_allow_elem_throw && !CAT_TC && nondet_bool()) { l0_exc = L0_EXC_ELEM; return 1; }
  return 0;
}

/* ------------------------------------------------------------------------------------------------ single elements */
static inline void L0_E_copy_construct(E *d, const E *s) {
  l0_range_ok(d, 1, "dst"); l0_range_ok(s, 1, "src");
  if (l0_cell_at(s)) L0_assert(g_cell_st == ST_LIVE, "C02 C10: copy source is alive and not moved-from");
  if (l0_cell_at(d)) L0_assert(ST_OK_CONSTRUCT(g_cell_st), "C02: construct only on raw memory");
  if (l0_elem_throws()) return;
  if (l0_tok_at(d)) g_tok_on = 0;      /* a value that sat there (trivially copyable: stale) is overwritten */
  int v = l0_valat(OBJ(s), OFF(s));
  if (l0_cell_at(d)) { g_cell_st = ST_LIVE; g_cell_val = v; }
  if (OBJ(d) == g_tmp_obj && OFF(d) == 0) { g_tmp_has = 1; g_tmp_val = v; }
  g_nctor++;
}
static inline void L0_E_move_construct(E *d, E *s) {
  l0_range_ok(d, 1, "dst"); l0_range_ok(s, 1, "src");
  L0_assert(d != s, "C01 C02: never move-constructed onto itself");
  if (l0_cell_at(s)) L0_assert(g_cell_st == ST_LIVE, "C02 C10: move source is alive and not moved-from");
  if (l0_cell_at(d)) L0_assert(ST_OK_CONSTRUCT(g_cell_st), "C02: construct only on raw memory");
#if !CAT_NOTHROW_MOVE
  if (l0_elem_throws()) return;
  if (l0_tok_at(d)) g_tok_on = 0;      /* a value that sat there (trivially copyable: stale) is overwritten */
#endif
  int v = l0_valat(OBJ(s), OFF(s));
  if (l0_tok_at(s)) { g_tok_obj = OBJ(d); g_tok_off = OFF(d); }
  if (l0_cell_at(d)) { g_cell_st = ST_LIVE; g_cell_val = v; }
  else if (l0_cell_at(s) && !CAT_TC) { g_cell_st = ST_MOVED; g_cell_val = nondet_int(); }
  if (OBJ(d) == g_tmp_obj && OFF(d) == 0) { g_tmp_has = 1; g_tmp_val = v; }
  else if (OBJ(s) == g_tmp_obj) g_tmp_has = 0;
  g_nctor++; g_nmove++;
}
static inline void L0_E_value_construct(E *d) {
  l0_range_ok(d, 1, "dst");
  if (l0_cell_at(d)) L0_assert(ST_OK_CONSTRUCT(g_cell_st), "C02: construct only on raw memory");
  if (l0_elem_throws()) return;
  if (l0_tok_at(d)) g_tok_on = 0;      /* a value that sat there (trivially copyable: stale) is overwritten */
  if (l0_cell_at(d)) { g_cell_st = ST_LIVE; g_cell_val = L0_VAL_INIT; }
  g_nctor++;
}
/* default-initialisation ('new (p) T;'): the object is alive, its value is indeterminate for the generic element type */
static inline void L0_E_default_construct(E *d) {
  l0_range_ok(d, 1, "dst");
  if (l0_cell_at(d)) L0_assert(ST_OK_CONSTRUCT(g_cell_st), "C02: construct only on raw memory");
  if (l0_elem_throws()) return;
  if (l0_tok_at(d)) g_tok_on = 0;      /* a value that sat there (trivially copyable: stale) is overwritten */
  if (l0_cell_at(d)) { g_cell_st = ST_LIVE; g_cell_val = nondet_int(); }
  g_nctor++;
}
static inline void L0_E_construct_from__i32(E *d, int a) {
  (void)a;
  l0_range_ok(d, 1, "dst");
  if (l0_cell_at(d)) L0_assert(ST_OK_CONSTRUCT(g_cell_st), "C02: construct only on raw memory");
  if (l0_elem_throws()) return;
  if (l0_tok_at(d)) g_tok_on = 0;      /* a value that sat there (trivially copyable: stale) is overwritten */
  if (l0_cell_at(d)) { g_cell_st = ST_LIVE; g_cell_val = nondet_int(); }
  g_nctor++;
}
static inline void L0_E_copy_assign(E *d, const E *s) {
  l0_range_ok(d, 1, "dst"); l0_range_ok(s, 1, "src");
  if (l0_cell_at(s)) L0_assert(g_cell_st == ST_LIVE, "C02 C10: assignment source is alive and not moved-from");
  if (l0_cell_at(d)) L0_assert(ST_OK_ASSIGN(g_cell_st), "C02: assign only onto a constructed object");
  if (d == s) return;
  int v = l0_valat(OBJ(s), OFF(s));
  if (l0_tok_at(d)) g_tok_on = 0;
  if (l0_elem_throws()) { if (l0_cell_at(d)) g_cell_val = nondet_int(); return; }
  if (l0_cell_at(d)) { g_cell_st = ST_LIVE; g_cell_val = v; }
  g_nassign++;
}
static inline void L0_E_move_assign(E *d, E *s) {
  l0_range_ok(d, 1, "dst"); l0_range_ok(s, 1, "src");
  L0_assert(d != s, "C01 C02: an element is never move-assigned onto itself");
  if (l0_cell_at(s)) L0_assert(g_cell_st == ST_LIVE, "C02 C10: move source is alive and not moved-from");
  if (l0_cell_at(d)) L0_assert(ST_OK_ASSIGN(g_cell_st), "C02: assign only onto a constructed object");
  int v = l0_valat(OBJ(s), OFF(s));
  if (l0_tok_at(d)) g_tok_on = 0;
#if !CAT_NOTHROW_MOVE
  if (l0_elem_throws()) { if (l0_cell_at(d)) g_cell_val = nondet_int(); return; }
#endif
  if (l0_tok_at(s)) { g_tok_obj = OBJ(d); g_tok_off = OFF(d); }
  if (l0_cell_at(d)) { g_cell_st = ST_LIVE; g_cell_val = v; }
  else if (l0_cell_at(s) && !CAT_TC) { g_cell_st = ST_MOVED; g_cell_val = nondet_int(); }
  g_nassign++; g_nmove++;
}
static inline void L0_E_destroy(E *p) {
  l0_range_ok(p, 1, "obj");
  if (l0_cell_at(p)) {
    L0_assert(ST_OK_DESTROY(g_cell_st), "C02: destroyed exactly once (object is alive)");
    if (!CAT_TC) g_cell_st = ST_RAW;
  }
  if (l0_tok_at(p) && !CAT_TC) g_tok_on = 0;
  g_ndtor++;
}
static inline void L0_destroy_at(E *p) { L0_E_destroy(p); }
/* std::construct_at (C++20, where amc::construct_at is the standard one) */
static inline E *L0_construct_at__pE_rE(E *p, const E *v) { L0_E_copy_construct(p, v); return p; }
static inline E *L0_construct_at__pE_rrE(E *p, E *v) { L0_E_move_construct(p, v); return p; }
static inline E *L0_construct_at__pE_ri32(E *p, int *a) { L0_E_construct_from__i32(p, *a); return p; }
static inline E *L0_construct_at__pE_rri32(E *p, int *a) { L0_E_construct_from__i32(p, *a); return p; }
static inline E *L0_construct_at__pE(E *p) { L0_E_value_construct(p); return p; }
static inline void L0_E_swap(E *a, E *b) {
  l0_range_ok(a, 1, "a"); l0_range_ok(b, 1, "b");
  L0_assert(a != b, "C02: an element is never swapped with itself");
  if (l0_cell_at(a) || l0_cell_at(b)) L0_assert(g_cell_st == ST_LIVE, "C02: swapped elements are alive");
  int va = l0_valat(OBJ(a), OFF(a)), vb = l0_valat(OBJ(b), OFF(b));
  _Bool ta = l0_tok_at(a), tb = l0_tok_at(b);
  if (ta) { g_tok_obj = OBJ(b); g_tok_off = OFF(b); }
  if (tb) { g_tok_obj = OBJ(a); g_tok_off = OFF(a); }
  if (l0_cell_at(a)) g_cell_val = vb;
  if (l0_cell_at(b)) g_cell_val = va;
  g_nmove += 3;
}

/* ------------------------------------------------------------------------------------------------ ranges: transfer  */
/* element i of [s, s+n) goes to d+i.  mode bits */
#define TR_MOVE 1      /* source is moved-from afterwards (else copied) */
#define TR_UNINIT 2    /* destination must be raw (construction) (else assignment onto constructed objects) */
#define TR_RELOC 4     /* source ends RAW (relocation: move + destroy, or byte copy) */
static inline void l0_transfer(E *d, E *s, uint64_t n, int mode) {
  if (n == 0) return;
  l0_range_ok(d, n, "dst"); l0_range_ok(s, n, "src");
  _Bool c_src = l0_cell_in(s, n), c_dst = l0_cell_in(d, n);
  if (c_src) L0_assert(g_cell_st == ST_LIVE, "C02 C10: every source element is alive and not moved-from");
  if (c_dst && !c_src) {
    if (mode & TR_UNINIT) L0_assert(ST_OK_CONSTRUCT(g_cell_st), "C02: construct only on raw memory");
    else L0_assert(ST_OK_ASSIGN(g_cell_st), "C02: assign only onto constructed objects");
  }
  /* value arriving at the tracked cell */
  int v = 0;
  if (c_dst) v = l0_valat(OBJ(s), OFF(s) + (g_cell_off - OFF(d)));
  _Bool t_src = l0_tok_in(s, n), t_dst = l0_tok_in(d, n);
  if (t_src) {
    if (mode & (TR_MOVE | TR_RELOC)) { g_tok_off = OFF(d) + (g_tok_off - OFF(s)); g_tok_obj = OBJ(d); }
    else if (t_dst) { /* copied over by another element of the same range */ g_tok_on = 0; }
  } else if (t_dst) g_tok_on = 0;
  if (c_dst) { g_cell_st = ST_LIVE; g_cell_val = v; }
  else if (c_src && !CAT_TC) {
    if (mode & TR_RELOC) g_cell_st = ST_RAW;
    else if (mode & TR_MOVE) { g_cell_st = ST_MOVED; g_cell_val = nondet_int(); }
  }
}
/* partial assignment on a throw: prefix [0,k) done, element k unknown, rest untouched */
static inline void l0_partial_assign(E *d, const E *s_or_null, uint64_t n, int v_all, _Bool use_v_all) {
  uint64_t k = nondet_u64();
  __CPROVER_assume(k < n);
  if (l0_tok_in(d, k + 1) && !(use_v_all && s_or_null && l0_tok_at(s_or_null))) g_tok_on = 0;
  if (l0_cell_in(d, k + 1)) {
    uint64_t idx = (g_cell_off - OFF(d)) / ESZ;
    if (idx < k) { g_cell_val = use_v_all ? v_all : l0_valat(OBJ(s_or_null), OFF(s_or_null) + idx * ESZ); g_cell_st = ST_LIVE; }
    else { g_cell_val = nondet_int(); }
  }
}

static inline E *L0_move(E *f, E *l, E *d) {            /* std::move(f, l, d): ascending move-assignment */
  uint64_t n = L0_COUNT(L0_PDIFF(l, f));
  if (n) {
    L0_assert(f != d, "C01 C02: an element is never move-assigned onto itself");
    L0_assert(!(OBJ(d) == OBJ(f) && OFF(d) > OFF(f) && OFF(d) < OFF(f) + n * ESZ), "C01: std::move destination not inside the source range");
    l0_transfer(d, f, n, TR_MOVE);
    g_nassign += n; g_nmove += n;
  }
  return d + n;
}
static inline E *L0_move_backward(E *f, E *l, E *dl) {  /* std::move_backward */
  uint64_t n = L0_COUNT(L0_PDIFF(l, f));
  if (n) {
    L0_assert(l != dl, "C01 C02: an element is never move-assigned onto itself");
    L0_assert(!(OBJ(dl) == OBJ(f) && OFF(dl) > OFF(f) && OFF(dl) < OFF(f) + n * ESZ), "C01: std::move_backward destination end not inside the source range");
    l0_transfer(dl - n, f, n, TR_MOVE);
    g_nassign += n; g_nmove += n;
  }
  return dl - n;
}
static inline _Bool l0_disjoint(const E *a, uint64_t n, const E *b, uint64_t m) {
  return OBJ(a) != OBJ(b) || OFF(a) + n * ESZ <= OFF(b) || OFF(b) + m * ESZ <= OFF(a);
}
struct pair_pE_pE;
static inline E *l0_uninit_move_n(E *f, int64_t cnt, E *d) {
  uint64_t n = L0_COUNT(cnt);
  if (n) {
    L0_assert(l0_disjoint(f, n, d, n), "C02: uninitialized_move ranges do not overlap");
#if !CAT_NOTHROW_MOVE
    if (l0_elem_throws()) { if (l0_cell_in(f, n)) g_cell_val = nondet_int(); if (l0_tok_in(f, n)) g_tok_on = 0; return d; }
#endif
    l0_transfer(d, f, n, TR_MOVE | TR_UNINIT);
    g_nctor += n; g_nmove += n;
  }
  return d + n;
}
static inline E *L0_uninitialized_copy_n(const E *f, int64_t cnt, E *d) {
  uint64_t n = L0_COUNT(cnt);
  if (n) {
    L0_assert(l0_disjoint(f, n, d, n), "C02: uninitialized_copy ranges do not overlap");
    if (l0_cell_in(f, n)) L0_assert(g_cell_st == ST_LIVE, "C02 C10: every source element is alive and not moved-from");
    if (l0_cell_in(d, n)) L0_assert(ST_OK_CONSTRUCT(g_cell_st), "C02: construct only on raw memory");
    l0_range_ok(d, n, "dst"); l0_range_ok(f, n, "src");
    if (l0_elem_throws()) return d;      /* all-or-nothing */
    l0_transfer(d, (E *)f, n, TR_UNINIT);
    g_nctor += n;
  }
  return d + n;
}
static inline E *L0_uninitialized_copy(const E *f, const E *l, E *d) { return L0_uninitialized_copy_n(f, L0_PDIFF(l, f), d); }
static inline E *L0_copy_n(const E *f, int64_t cnt, E *d) {
  uint64_t n = L0_COUNT(cnt);
  if (n) {
    L0_assert(!(OBJ(d) == OBJ(f) && OFF(d) > OFF(f) && OFF(d) < OFF(f) + n * ESZ), "C01: std::copy destination not inside the source range");
    if (l0_cell_in(f, n)) L0_assert(g_cell_st == ST_LIVE, "C02 C10: every source element is alive and not moved-from");
    if (l0_cell_in(d, n) && !l0_cell_in(f, n)) L0_assert(ST_OK_ASSIGN(g_cell_st), "C02: assign only onto constructed objects");
    l0_range_ok(d, n, "dst"); l0_range_ok(f, n, "src");
    if (f == d) return d + n;
    if (l0_elem_throws()) { l0_partial_assign(d, f, n, 0, 0); return d; }
    l0_transfer(d, (E *)f, n, 0);
    g_nassign += n;
  }
  return d + n;
}
static inline E *L0_copy(const E *f, const E *l, E *d) { return L0_copy_n(f, L0_PDIFF(l, f), d); }
static inline E *L0_fill_n(E *d, int64_t cnt, const E *v) {
  uint64_t n = L0_COUNT(cnt);
  if (n) {
    l0_range_ok(d, n, "dst"); l0_range_ok(v, 1, "value");
    if (l0_cell_at(v)) L0_assert(g_cell_st == ST_LIVE, "C02 C10: fill source alive and not moved-from");
    else if (l0_cell_in(d, n)) L0_assert(ST_OK_ASSIGN(g_cell_st), "C02: assign only onto constructed objects");
    int val = l0_valat(OBJ(v), OFF(v));
    if (l0_elem_throws()) { l0_partial_assign(d, v, n, val, 1); return d; }
    if (l0_tok_in(d, n) && !l0_tok_at(v)) g_tok_on = 0;
    if (l0_cell_in(d, n)) { g_cell_st = ST_LIVE; g_cell_val = val; }
    g_nassign += n;
  }
  return d + n;
}
static inline E *L0_uninitialized_fill_n(E *d, int64_t cnt, const E *v) {
  uint64_t n = L0_COUNT(cnt);
  if (n) {
    l0_range_ok(d, n, "dst"); l0_range_ok(v, 1, "value");
    /* (for a trivially copyable type every slot, the source's own included, receives the value the source already has) */
    L0_assert(CAT_TC || !l0_in(OBJ(v), OFF(v), d, n), "C02 C10: fill source does not lie in the raw destination");
    if (l0_cell_at(v)) L0_assert(g_cell_st == ST_LIVE, "C02 C10: fill source alive and not moved-from");
    if (l0_cell_in(d, n)) L0_assert(ST_OK_CONSTRUCT(g_cell_st), "C02: construct only on raw memory");
    int val = l0_valat(OBJ(v), OFF(v));
    if (l0_elem_throws()) return d;      /* all-or-nothing */
    if (l0_tok_in(d, n)) g_tok_on = 0;
    if (l0_cell_in(d, n)) { g_cell_st = ST_LIVE; g_cell_val = val; }
    g_nctor += n;
  }
  return d + n;
}
static inline E *L0_uninitialized_value_construct_n(E *d, int64_t cnt) {
  uint64_t n = L0_COUNT(cnt);
  if (n) {
    l0_range_ok(d, n, "dst");
    if (l0_cell_in(d, n)) L0_assert(ST_OK_CONSTRUCT(g_cell_st), "C02: construct only on raw memory");
    if (l0_elem_throws()) return d;
    if (l0_tok_in(d, n)) g_tok_on = 0;
    if (l0_cell_in(d, n)) { g_cell_st = ST_LIVE; g_cell_val = L0_VAL_INIT; }
    g_nctor += n;
  }
  return d + n;
}
static inline E *L0_destroy_n(E *f, int64_t cnt) {
  uint64_t n = L0_COUNT(cnt);
  if (n) {
    l0_range_ok(f, n, "range");
    if (l0_cell_in(f, n)) {
      L0_assert(ST_OK_DESTROY(g_cell_st), "C02: destroyed exactly once (object is alive)");
      if (!CAT_TC) g_cell_st = ST_RAW;
    }
    if (l0_tok_in(f, n) && !CAT_TC) g_tok_on = 0;
    g_ndtor += n;
  }
  return f + n;
}
static inline void L0_destroy(E *f, E *l) { (void)L0_destroy_n(f, L0_PDIFF(l, f)); }
static inline E *L0_swap_ranges(E *f1, E *l1, E *f2) {
  uint64_t n = L0_COUNT(L0_PDIFF(l1, f1));
  if (n) {
    l0_range_ok(f1, n, "a"); l0_range_ok(f2, n, "b");
    L0_assert(l0_disjoint(f1, n, f2, n), "C02: swap_ranges ranges do not overlap");
    _Bool c1 = l0_cell_in(f1, n), c2 = l0_cell_in(f2, n);
    if (c1 || c2) L0_assert(g_cell_st == ST_LIVE, "C02: swapped elements are alive");
    int v = 0;
    if (c1) v = l0_valat(OBJ(f2), OFF(f2) + (g_cell_off - OFF(f1)));
    if (c2) v = l0_valat(OBJ(f1), OFF(f1) + (g_cell_off - OFF(f2)));
    _Bool t1 = l0_tok_in(f1, n), t2 = l0_tok_in(f2, n);
    if (t1) { g_tok_off = OFF(f2) + (g_tok_off - OFF(f1)); g_tok_obj = OBJ(f2); }
    else if (t2) { g_tok_off = OFF(f1) + (g_tok_off - OFF(f2)); g_tok_obj = OBJ(f1); }
    if (c1 || c2) g_cell_val = v;
    g_nmove += 3 * n;
  }
  return f2 + n;
}
/* comparisons: abstract result; the ranges consulted are recorded */
static inline _Bool L0_equal(const E *f1, const E *l1, const E *f2) {
  uint64_t n = L0_COUNT(L0_PDIFF(l1, f1));
  if (n) { l0_range_ok(f1, n, "a"); l0_range_ok(f2, n, "b");
    if (l0_cell_in(f1, n) || l0_cell_in(f2, n)) L0_assert(g_cell_st == ST_LIVE, "C02: compared elements are alive"); }
  g_cmp_kind = 1; g_cmp_obj1 = OBJ(f1); g_cmp_off1 = OFF(f1); g_cmp_n1 = n; g_cmp_obj2 = OBJ(f2); g_cmp_off2 = OFF(f2); g_cmp_n2 = n;
  return nondet_bool();
}
static inline _Bool L0_lexicographical_compare(const E *f1, const E *l1, const E *f2, const E *l2) {
  uint64_t n = L0_COUNT(L0_PDIFF(l1, f1)), m = L0_COUNT(L0_PDIFF(l2, f2));
  if (n) l0_range_ok(f1, n, "a");
  if (m) l0_range_ok(f2, m, "b");
  if (l0_cell_in(f1, n) || l0_cell_in(f2, m)) L0_assert(g_cell_st == ST_LIVE, "C02: compared elements are alive");
  g_cmp_kind = 2; g_cmp_obj1 = OBJ(f1); g_cmp_off1 = OFF(f1); g_cmp_n1 = n; g_cmp_obj2 = OBJ(f2); g_cmp_off2 = OFF(f2); g_cmp_n2 = m;
  return nondet_bool();
}

/* the comparison operators of the containers are defined by operator== / operator< of the elements ([container.requirements]):
 * a comparison that goes through another predicate object is a different relation */
#define L0_equal_pred(f1, l1, f2, pred) (L0_assert(0, "C01 C03 C04: operator== compares the elements with their own operator==, not with another predicate"), nondet_bool())
#define L0_lexicographical_compare_pred(f1, l1, f2, l2, pred) (L0_assert(0, "C01 C03 C04: operator< compares the elements with their own operator<, not with another predicate"), nondet_bool())
/* ------------------------------------------------------------------------------------------------ bytes            */
/* memmove / memcpy on element storage: only for relocatable categories; it is a relocation */
static inline void *L0_memmove__pE_pE_u64(E *d, const E *s, uint64_t bytes) {
  L0_assert(CAT_TC || CAT_TR, "C02: raw byte copy only for trivially copyable or declared trivially relocatable types");
  L0_assert(bytes % ESZ == 0, "C02: byte copy of whole elements");
  uint64_t n = bytes / ESZ;
  if (n && d != s) {
    l0_range_ok(d, n, "dst"); l0_range_ok((E *)s, n, "src");
    if (l0_cell_in(s, n)) L0_assert(g_cell_st == ST_LIVE, "C02: every relocated element is alive");
    else if (l0_cell_in(d, n)) L0_assert(ST_OK_CONSTRUCT(g_cell_st), "C02: relocation target is raw memory");
    l0_transfer(d, (E *)s, n, TR_RELOC | TR_UNINIT);
    g_nbytecopy += n;
  }
  return d;
}
static inline void *L0_memcpy__pE_pE_u64(E *d, const E *s, uint64_t bytes) {
  if (bytes) L0_assert(l0_disjoint(d, bytes / ESZ, s, bytes / ESZ), "C02: memcpy ranges do not overlap");
  return L0_memmove__pE_pE_u64(d, s, bytes);
}
/* memcpy of ONE object of a trivially copyable type into storage that is named only as void* (amc::construct_at for trivially
 * copyable types): construction of a copy, the source stays where it is */
static inline void *L0_memcpy__pv_pE_u64(void *d, const E *s, uint64_t bytes) {
  L0_assert(CAT_TC, "C02: an object is created by a byte copy only for trivially copyable types");
  L0_assert(bytes == ESZ, "C02: byte copy of one whole element");
  l0_range_ok((E *)d, 1, "dst"); l0_range_ok(s, 1, "src");
  L0_assert((E *)d == s || l0_disjoint((E *)d, 1, s, 1), "C02: memcpy ranges do not overlap");
  {
    int v = l0_valat(OBJ(s), OFF(s));
    if (l0_cell_at((E *)d)) { g_cell_st = ST_LIVE; g_cell_val = v; }
    if (OBJ(d) == g_tmp_obj && OFF(d) == 0) { g_tmp_has = 1; g_tmp_val = v; }
  }
  g_nctor++; g_nbytecopy++;
  return d;
}
/* the pointer stored in the first bytes of the inline storage (ElemWithPtrStorage::setDyn / dyn) */
static inline void *L0_memcpy__a8pu8_ppE_u64(uint8_t (*dst)[8], E **src, uint64_t n) {
  L0_assert(n == 8, "C17: pointer size");
  if (!CAT_TC && g_cell_obj == OBJ(dst) && g_cell_off + ESZ > OFF(dst) && g_cell_off < OFF(dst) + 8)
    L0_assert(g_cell_st == ST_RAW, "C02: the heap pointer only overwrites inline slots that hold no element");
  *(E **)dst = *src;
  return dst;
}
static inline void *L0_memcpy__ppE_a8pu8_u64(E **dst, const uint8_t (*src)[8], uint64_t n) {
  L0_assert(n == 8, "C17: pointer size");
  *dst = *(E *const *)src;
  return dst;
}

/* ------------------------------------------------------------------------------------------------ allocation       */
void *malloc(size_t);
static inline void *L0_malloc(uint64_t bytes) {
  if (g_allow_alloc_fail && nondet_bool()) return (void *)0;
  void *p = malloc(bytes ? bytes : 1);
  __CPROVER_assume(p != (void *)0);
  /* a fresh block holds no element; a prophetic tracked cell inside it sits on one of its element slots */
  if (g_cell_obj == OBJ(p)) __CPROVER_assume(g_cell_st == ST_RAW && g_cell_off % ESZ == 0 && g_cell_off + ESZ <= bytes);
  __CPROVER_assume(!(g_tok_on && g_tok_obj == OBJ(p)));
  if (g_blk_obj == OBJ(p)) { __CPROVER_assume(g_blk_state == BLK_NONE); g_blk_state = BLK_ALLOCATED; g_blk_bytes = bytes; }
  g_nalloc++;
  return p;
}
static inline void L0_free(void *p) {
  if (p == (void *)0) return;
  L0_assert(OFF(p) == 0, "C06: only the start of a block is handed back");
  if (!CAT_TC && g_cell_obj == OBJ(p)) L0_assert(g_cell_st == ST_RAW, "C02 C06: no live element in a block that is handed back");
  if (g_blk_obj == OBJ(p)) {
    L0_assert(g_blk_state == BLK_ALLOCATED, "C06: each block is handed back exactly once");
    g_blk_state = BLK_FREED;
  }
  g_ndealloc++;
}
static inline void *L0_realloc(void *p, uint64_t bytes) {
  L0_assert(CAT_TC || CAT_TR, "C02 C06: realloc only for trivially relocatable element types");
  if (g_allow_alloc_fail && nondet_bool()) return (void *)0;
  void *q = malloc(bytes ? bytes : 1);
  __CPROVER_assume(q != (void *)0);
  __CPROVER_assume(g_cell_obj != OBJ(q) || (g_cell_st == ST_RAW && g_cell_off % ESZ == 0 && g_cell_off + ESZ <= bytes));
  __CPROVER_assume(!(g_tok_on && g_tok_obj == OBJ(q)));
  if (p != (void *)0) {
    L0_assert(OFF(p) == 0, "C06: only the start of a block is reallocated");
    uint64_t oldb = __CPROVER_OBJECT_SIZE(p);
    uint64_t keep = oldb < bytes ? oldb : bytes;
    /* the prophetic cell of the new block below 'keep' is represented by the run tracking the old location */
    __CPROVER_assume(!(g_cell_obj == OBJ(q) && g_cell_off < keep));
    if (g_cell_obj == OBJ(p)) {
      if (g_cell_off + ESZ <= keep) g_cell_obj = OBJ(q);
      else { if (!CAT_TC) L0_assert(g_cell_st == ST_RAW, "C06: no live element beyond the new size of a reallocated block"); }
    }
    if (g_tok_on && g_tok_obj == OBJ(p)) { if (g_tok_off + ESZ <= keep) g_tok_obj = OBJ(q); else g_tok_on = 0; }
    for (uint64_t i = 0; i < 0; i++) {}
    if (g_blk_obj == OBJ(p)) { L0_assert(g_blk_state == BLK_ALLOCATED, "C06: reallocated block is outstanding"); g_blk_state = BLK_FREED; }
  }
  if (g_blk_obj == OBJ(q)) { __CPROVER_assume(g_blk_state == BLK_NONE); g_blk_state = BLK_ALLOCATED; g_blk_bytes = bytes; }
  g_nrealloc++;
  return q;
}

/* a local object that has just been declared holds no element (the tracked cell / token may prophetically lie in it) */
static inline void L0_fresh_local(const void *p, uint64_t bytes) {
  if (g_cell_obj == OBJ(p)) __CPROVER_assume((CAT_TC || g_cell_st == ST_RAW) && g_cell_off % ESZ == 0 && g_cell_off + ESZ <= bytes);
  if (g_tok_on) __CPROVER_assume(g_tok_obj != OBJ(p));
  g_tmp_obj = OBJ(p); g_tmp_has = 0;
}
/* a local object of class type: the cell may only lie on one of the element slots of that type (predicate generated per struct) */
static inline void L0_fresh_local_struct(const void *p, uint64_t bytes, _Bool cell_on_slot) {
  if (g_cell_obj == OBJ(p)) __CPROVER_assume((CAT_TC || g_cell_st == ST_RAW) && cell_on_slot && g_cell_off + ESZ <= bytes);
  if (g_tok_on) __CPROVER_assume(g_tok_obj != OBJ(p));
  g_tmp_obj = OBJ(p); g_tmp_has = 0;
}
#define L0_FRESH_LOCAL_S(tag, p) L0_fresh_local_struct(p, sizeof(*(p)), L0_SLOT_OK_##tag(g_cell_off))
/* the 'basic allocator' concept (void *allocate(size_t), void *reallocate(void *, size_t old, size_t new), void deallocate(void *, size_t)):
 * exact-size semantics -- a block is handed back / reallocated with the byte size it was obtained with */
static inline void *L0_SimpleAllocator__allocate__u64(void *a, uint64_t bytes) {
  (void)a;
  void *p = L0_malloc(bytes);
  if (p == (void *)0) { l0_exc = L0_EXC_BAD_ALLOC; return (void *)0; }
  return p;
}
static inline void L0_SimpleAllocator__deallocate__pv_u64(void *a, void *p, uint64_t bytes) {
  (void)a;
  if (p != (void *)0 && g_blk_obj == OBJ(p))
    L0_assert(g_blk_bytes == bytes, "C06: a block is handed back with the size it was obtained (or last reallocated) with");
  L0_free(p);
}
static inline void *L0_SimpleAllocator__reallocate__pv_u64_u64(void *a, void *p, uint64_t oldb, uint64_t newb) {
  (void)a;
  if (p != (void *)0 && g_blk_obj == OBJ(p))
    L0_assert(g_blk_bytes == oldb, "C06: reallocate is given the true old size of the block");
  else if (p == (void *)0)
    L0_assert(oldb == 0, "C06: reallocate of no block is given the old size 0");
  void *q = L0_realloc(p, newb);
  if (q == (void *)0) { l0_exc = L0_EXC_BAD_ALLOC; return (void *)0; }
  return q;
}
#define L0_SimpleAllocator__reallocate__pE_u64_u64 L0_SimpleAllocator__reallocate__pv_u64_u64
#define L0_SimpleAllocator__deallocate__pE_u64 L0_SimpleAllocator__deallocate__pv_u64
static inline void L0_assert_fail(void) { L0_assert(0, "C16: an assert() of the headers holds under the precondition of the operation (enabling assertions changes nothing)"); }
static inline void L0_terminate(void) { L0_assert(0, "C13 C17: no exception escapes a noexcept function (std::terminate)"); }
static inline void L0_missing_return(void) { L0_assert(0, "C15 C16: control reaches the end of a non-void function"); }

#ifdef WITH_SETS
#include "l0_sets.h"
#endif
#endif
