/* SetSpec: the abstract set behind SmallSet's large state (std::set, or FlatSet whose single-element operations are proved
 * against the same step function in the fs.* units).  Skolemised on ONE equivalence class kappa = the class of the key
 * argument:  n = number of elements, has = an element of class kappa is present, pos = its position when present.
 * Two instances (the set of *this and the set of the other operand), told apart by the address of the set object.
 * Iterators are pointers into an opaque buffer: begin = buf, end = buf + n.  Included after the struct definitions. */
#ifndef L0_ASET_H
#define L0_ASET_H
#if defined(WITH_SETS) && defined(HAVE_pair_pE_b) && defined(HAVE_GhostCmp)
struct aset { uint64_t obj, off; uint64_t n; _Bool has; uint64_t pos; E *buf; };
extern struct aset g_as[2];
extern uint64_t g_as_nctor, g_as_ndtor; extern uint64_t pre_as0_n, pre_as1_n; extern _Bool pre_as0_has, pre_as1_has;   /* element constructions / destructions performed inside the abstract sets */
#define ASET_ROOM 8     /* the opaque buffer has room for this many more elements than the set holds at entry */

static inline struct aset *l0_as(const void *set) {
  if (OBJ(set) == g_as[0].obj && OFF(set) == g_as[0].off) return &g_as[0];
  if (OBJ(set) == g_as[1].obj && OFF(set) == g_as[1].off) return &g_as[1];
  L0_assert(0, "UNDECIDED: operation on a set object that is not one of the two tracked abstract sets");
  return &g_as[0];
}
static inline E *l0_as_at(struct aset *a, uint64_t i) { return L0_PADD(a->buf, +, i); }
static inline _Bool L0_SET__empty_c(const void *s) { return l0_as(s)->n == 0; }
static inline uint64_t L0_SET__size_c(const void *s) { return l0_as(s)->n; }
static inline const E *L0_SET__begin_c(const void *s) { return l0_as(s)->buf; }
static inline const E *L0_SET__end_c(const void *s) { struct aset *a = l0_as(s); return l0_as_at(a, a->n); }
static inline struct GhostCmp L0_SET__key_comp_c(const void *s) { (void)s; struct GhostCmp c; c.token = g_set_cmp_token; return c; }
static inline void L0_SET__clear(void *s) { struct aset *a = l0_as(s); a->n = 0; a->has = 0; }
/* insertion of one element: the key itself, or an element of the inline vector (registered rank) */
static inline struct pair_pE_b l0_as_insert(void *s, E *v, _Bool move) {
  struct aset *a = l0_as(s);
  struct pair_pE_b r;
  int64_t rk = l0_rank_of(v);
  l0_range_ok(v, 1, "value");
  if (l0_cell_at(v)) L0_assert(g_cell_st == ST_LIVE, "C02: inserted value is alive and not moved-from");
  if (g_allow_elem_throw && nondet_bool()) { l0_exc = move ? L0_EXC_BAD_ALLOC : (nondet_bool() ? L0_EXC_BAD_ALLOC : L0_EXC_ELEM); r.first = 0; r.second = 0; return r; }
  L0_assert(a->n < ASET_ROOM + a->n, "UNDECIDED: abstract set buffer exhausted");
  _Bool ins;
  if (rk == g_key_rank) {
    ins = !a->has; a->has = 1;
    if (ins) { a->n += 1; a->pos = nondet_u64(); __CPROVER_assume(a->pos < a->n); }
    r.first = l0_as_at(a, a->pos);
  } else {
    ins = a->n == 0 ? 1 : nondet_bool();
    uint64_t p = nondet_u64();
    if (ins) { a->n += 1; if (a->has) { a->pos = nondet_u64(); __CPROVER_assume(a->pos < a->n); } }
    __CPROVER_assume(p < a->n && (!a->has || p != a->pos));
    r.first = l0_as_at(a, p);
  }
  r.second = ins;
  if (ins && move) { if (l0_cell_at(v) && !CAT_TC) { g_cell_st = ST_MOVED; g_cell_val = nondet_int(); } if (l0_tok_at(v)) g_tok_on = 0; }
  if (ins) { g_nctor++; g_as_nctor++; }
  return r;
}
static inline struct pair_pE_b L0_SET__insert__rE(void *s, const E *v) { return l0_as_insert(s, (E *)v, 0); }
static inline struct pair_pE_b L0_SET__insert__rrE(void *s, E *v) { return l0_as_insert(s, v, 1); }
static inline const E *L0_SET__insert__pE_rE(void *s, const E *hint, const E *v) { (void)hint; return l0_as_insert(s, (E *)v, 0).first; }
static inline const E *L0_SET__insert__pE_rrE(void *s, const E *hint, E *v) { (void)hint; return l0_as_insert(s, v, 1).first; }
/* emplace(args...): the element built from the arguments belongs to the key's class; a node is built and, when an equivalent
 * element is present, destroyed again */
static inline struct pair_pE_b L0_SET__emplace__ri32(void *s, int *args) {
  struct aset *a = l0_as(s);
  struct pair_pE_b r;
  (void)args;
  if (g_allow_elem_throw && nondet_bool()) { l0_exc = nondet_bool() ? L0_EXC_BAD_ALLOC : L0_EXC_ELEM; r.first = 0; r.second = 0; return r; }
  _Bool ins = !a->has; a->has = 1;
  if (ins) { a->n += 1; a->pos = nondet_u64(); __CPROVER_assume(a->pos < a->n); }
  r.first = l0_as_at(a, a->pos); r.second = ins;
  g_nctor++; g_as_nctor++;
  if (!ins) { g_ndtor++; g_as_ndtor++; }
  return r;
}
static inline const E *L0_SET__emplace_hint__pE_ri32(void *s, const E *hint, int *args) { (void)hint; return L0_SET__emplace__ri32(s, args).first; }
#ifdef HAVE_move_iterator_pE
/* bulk insertion of the inline elements into the (empty) set: SmallSet::grow */
static inline void L0_SET__insert__move_iterator_pE_move_iterator_pE(void *s, struct move_iterator_pE f, struct move_iterator_pE l) {
  struct aset *a = l0_as(s);
  uint64_t m = L0_COUNT(L0_PDIFF(l.current, f.current));
  L0_assert(a->n == 0, "UNDECIDED: bulk insertion into a non-empty abstract set");
  if (m) {
    L0_assert(OBJ(f.current) == g_set_obj && OFF(f.current) == g_set_off && m == g_set_n, "UNDECIDED: bulk insertion of something else than the whole inline sequence");
    l0_range_ok(f.current, m, "range");
    if (l0_cell_in(f.current, m)) L0_assert(g_cell_st == ST_LIVE, "C02: every moved element is alive");
  }
  if (g_allow_alloc_fail && nondet_bool()) { l0_exc = L0_EXC_BAD_ALLOC; return; }
  /* the inline elements are pairwise non-equivalent (invariant, registered): all of them are inserted */
  a->n = m;
  a->has = (m > 0 && l0_rank_at(0) == g_key_rank) || (m > 1 && l0_rank_at(1) == g_key_rank) || (m > 2 && l0_rank_at(2) == g_key_rank) || (m > 3 && l0_rank_at(3) == g_key_rank);
  if (a->has) { a->pos = nondet_u64(); __CPROVER_assume(a->pos < a->n); }
  if (m && l0_cell_in(f.current, m) && !CAT_TC) { g_cell_st = ST_MOVED; g_cell_val = nondet_int(); }
  if (m && l0_tok_in(f.current, m)) g_tok_on = 0;
  g_nctor += m; g_as_nctor += m;
}
#endif
static inline const E *L0_SET__find_c__rE(const void *s, const E *k) {
  struct aset *a = l0_as(s);
  L0_assert(l0_is_key(k), "UNDECIDED: lookup of something that is not the key argument");
  g_ncmp += 0;
  return a->has ? l0_as_at(a, a->pos) : l0_as_at(a, a->n);
}
static inline uint64_t L0_SET__count_c__rE(const void *s, const E *k) {
  L0_assert(l0_is_key(k), "UNDECIDED: lookup of something that is not the key argument");
  return l0_as(s)->has ? 1 : 0;
}
static inline uint64_t L0_SET__erase__rE(void *s, const E *k) {
  struct aset *a = l0_as(s);
  L0_assert(l0_is_key(k), "UNDECIDED: erase of something that is not the key argument");
  uint64_t r = a->has ? 1 : 0;
  a->n -= r; a->has = 0;
  g_ndtor += r; g_as_ndtor += r;
  return r;
}
/* erase(position): removes that element, returns the iterator following it (end() when it was the last one) */
static inline const E *L0_SET__erase__pE(void *s, const E *it) {
  struct aset *a = l0_as(s);
  L0_assert(OBJ(it) == OBJ(a->buf) && OFF(it) >= OFF(a->buf) && (OFF(it) - OFF(a->buf)) / ESZ < a->n, "C11: erase(position) is given an iterator that designates an element of the set");
  uint64_t i = (OFF(it) - OFF(a->buf)) / ESZ;
  if (a->has && i == a->pos) a->has = 0; else if (a->has && i < a->pos) a->pos -= 1;
  a->n -= 1;
  g_ndtor++; g_as_ndtor++;
  return l0_as_at(a, i);
}
static inline const E *L0_SET__erase__pE_pE(void *s, const E *f, const E *l) {
  struct aset *a = l0_as(s);
  L0_assert(OBJ(f) == OBJ(a->buf) && OBJ(l) == OBJ(a->buf) && OFF(f) >= OFF(a->buf) && OFF(f) <= OFF(l) && (OFF(l) - OFF(a->buf)) / ESZ <= a->n, "C11: erase(first, last) is given a valid range of the set");
  uint64_t i = (OFF(f) - OFF(a->buf)) / ESZ, j = (OFF(l) - OFF(a->buf)) / ESZ;
  if (a->has && a->pos >= i && a->pos < j) a->has = 0; else if (a->has && a->pos >= j) a->pos -= (j - i);
  a->n -= (j - i);
  g_ndtor += (j - i); g_as_ndtor += (j - i);
  return l0_as_at(a, i);
}
static inline void L0_SET__swap(void *s, void *o) {
  struct aset *a = l0_as(s), *b = l0_as(o);
  uint64_t n = a->n, pos = a->pos; _Bool has = a->has; E *buf = a->buf;
  a->n = b->n; a->pos = b->pos; a->has = b->has; a->buf = b->buf;
  b->n = n; b->pos = pos; b->has = has; b->buf = buf;
}
#ifdef SETNODE_T
/* node handles of the abstract set (the real node_type struct of the SetType: allocator + std::optional<E>) */
static inline void L0_SET__extract__rE(void *s, const E *k, SETNODE_T *node) {
  struct aset *a = l0_as(s);
  L0_assert(l0_is_key(k), "UNDECIDED: extract of something that is not the key argument");
  node->_optV._engaged = a->has;
  if (a->has) {
    a->n -= 1; a->has = 0;
    l0_range_ok(&node->_optV._val, 1, "node value");
    if (l0_cell_at(&node->_optV._val)) { L0_assert(ST_OK_CONSTRUCT(g_cell_st), "C02: construct only on raw memory"); g_cell_st = ST_LIVE; g_cell_val = nondet_int(); }
    g_nctor++; g_ndtor++; g_as_ndtor++;      /* moved into the node, the slot inside the set destroyed */
  }
}
/* extract(position): removes that element and hands it to the node */
static inline void L0_SET__extract__pE(void *s, const E *it, SETNODE_T *node) {
  struct aset *a = l0_as(s);
  L0_assert(OBJ(it) == OBJ(a->buf) && OFF(it) >= OFF(a->buf) && (OFF(it) - OFF(a->buf)) / ESZ < a->n, "C11: extract(position) is given an iterator that designates an element of the set");
  uint64_t i = (OFF(it) - OFF(a->buf)) / ESZ;
  if (a->has && i == a->pos) a->has = 0; else if (a->has && i < a->pos) a->pos -= 1;
  a->n -= 1;
  node->_optV._engaged = 1;
  l0_range_ok(&node->_optV._val, 1, "node value");
  if (l0_cell_at(&node->_optV._val)) { L0_assert(ST_OK_CONSTRUCT(g_cell_st), "C02: construct only on raw memory"); g_cell_st = ST_LIVE; g_cell_val = nondet_int(); }
  g_nctor++; g_ndtor++; g_as_ndtor++;
}
static inline _Bool L0_SET__op_bool_c(const SETNODE_T *node) { return node->_optV._engaged; }
static inline _Bool L0_SET__empty_node_c(const SETNODE_T *node) { return !node->_optV._engaged; }
static inline E *L0_SET__value(SETNODE_T *node) { L0_assert(node->_optV._engaged, "C03 C04: value() of an engaged node only"); return &node->_optV._val; }
#endif
#ifdef HAVE_A
static inline struct A L0_SET__get_allocator_c(const void *s) { (void)s; struct A a = {0}; return a; }
#endif
#ifdef FINDFUNCTOR_T
/* std::find_if over the inline elements (at most 4) with SmallSet's FindFunctor: first element equivalent to the key */
static inline E *L0_find_if(E *f, E *l, FINDFUNCTOR_T fn) {
  uint64_t m = L0_COUNT(L0_PDIFF(l, f));
  L0_assert(m <= 4, "UNDECIDED: linear search over more than 4 inline elements");
  if (m > 0 && FINDFUNCTOR_CALL(&fn, f)) return f;
  if (m > 1 && FINDFUNCTOR_CALL(&fn, f + 1)) return f + 1;
  if (m > 2 && FINDFUNCTOR_CALL(&fn, f + 2)) return f + 2;
  if (m > 3 && FINDFUNCTOR_CALL(&fn, f + 3)) return f + 3;
  return l;
}
#endif
#endif
#endif
