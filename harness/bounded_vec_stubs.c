/* Specifications of the vector operations the set code calls, as executable C on the concrete memory of the bounded stand-ins
 * (glue written in /verif, NOT repository code).  In a bounded unit the bodies of these callees are not taken from the lowered
 * code: the caller is checked against what the callee's contract states (contracts/vectorimpl.spec -- proved, without bound, in
 * the op.* units): sizes, positions, values, capacity growth by max(1.5*old, needed), one allocator request per growth.
 * BVIMPL_T = lowered struct of the VectorImpl instantiation, BVEC_T = its base holding _size/_capa/_storage. */
#define BV(self) ((BVEC_T *)(self))
static void bv_need(BVEC_T *v, uint64_t need) {
  if (need <= v->_capa) return;
  uint64_t nc = (3 * (uint64_t)v->_capa + 1) / 2;
  if (nc < need) nc = need;
  E *nb = (E *)L0_malloc(nc * ESZ);
  for (uint64_t i = 0; i < v->_size; i++) { nb[i].r = v->_storage[i].r; v->_storage[i].r = C_RAW; }
  if (v->_storage) L0_free(v->_storage);
  v->_storage = nb; v->_capa = (__typeof__(v->_capa))nc;
}
static uint64_t bv_idx(BVEC_T *v, const E *pos) {
  uint64_t idx = (uint64_t)L0_PDIFF(pos, (const E *)v->_storage);
  __CPROVER_assert(idx <= v->_size, "C01 C03: iterator argument designates a position of the vector");
  return idx;
}
#ifdef BV_INSERT_RR
E *BV_INSERT_RR(BVIMPL_T *self, E *position, E *v) {
  BVEC_T *b = BV(self); uint64_t idx = bv_idx(b, position);
  __CPROVER_assert(c_alive(v), "C02 C10: inserted value is alive and not moved-from");
  int64_t val = RK(v); RK(v) = C_MOVED;
  bv_need(b, (uint64_t)b->_size + 1);
  for (uint64_t i = b->_size; i > idx; i--) b->_storage[i].r = b->_storage[i - 1].r;
  b->_storage[idx].r = val; b->_size++; g_nctor++;
  return b->_storage + idx;
}
#endif
#ifdef BV_PUSH_BACK_RR
void BV_PUSH_BACK_RR(BVIMPL_T *self, E *v) {
  BVEC_T *b = BV(self);
  __CPROVER_assert(c_alive(v), "C02 C10: appended value is alive and not moved-from");
  int64_t val = RK(v); RK(v) = C_MOVED;
  bv_need(b, (uint64_t)b->_size + 1);
  b->_storage[b->_size].r = val; b->_size++; g_nctor++;
}
#endif
#ifdef BV_ERASE
E *BV_ERASE(BVIMPL_T *self, E *position) {
  BVEC_T *b = BV(self); uint64_t idx = bv_idx(b, position);
  __CPROVER_assert(idx < b->_size, "C01 C03: erase(position) is given a dereferenceable iterator");
  __CPROVER_assert(b->_storage[idx].r != C_RAW, "C02: destroyed exactly once (object is alive)");
  for (uint64_t i = idx; i + 1 < b->_size; i++) b->_storage[i].r = b->_storage[i + 1].r;
  b->_storage[b->_size - 1].r = C_RAW; b->_size--; g_ndtor++;
  return b->_storage + idx;
}
#endif
#ifdef BV_ERASE_RANGE
E *BV_ERASE_RANGE(BVIMPL_T *self, E *first, E *last) {
  BVEC_T *b = BV(self); uint64_t i0 = bv_idx(b, first), i1 = bv_idx(b, last);
  __CPROVER_assert(i0 <= i1, "C01 C03: erase(first, last) is given a valid range");
  uint64_t k = i1 - i0, n = b->_size;
  for (uint64_t i = i0; i + k < n; i++) b->_storage[i].r = b->_storage[i + k].r;
  for (uint64_t i = n - k; i < n; i++) b->_storage[i].r = C_RAW;
  b->_size = (__typeof__(b->_size))(n - k); g_ndtor += k;
  return L0_PADD(b->_storage, +, i0);
}
#endif
#ifdef BV_INSERT_MOVE_RANGE
E *BV_INSERT_MOVE_RANGE(BVIMPL_T *self, E *position, struct move_iterator_pE first, struct move_iterator_pE last) {
  BVEC_T *b = BV(self); uint64_t idx = bv_idx(b, position);
  uint64_t k = L0_COUNT(L0_PDIFF(last.current, first.current));
  if (k == 0) return position;
  bv_need(b, (uint64_t)b->_size + k);
  for (uint64_t i = b->_size; i > idx; i--) b->_storage[i - 1 + k].r = b->_storage[i - 1].r;
  for (uint64_t j = 0; j < k; j++) { __CPROVER_assert(c_alive(first.current + j), "C02 C10: every inserted element is alive"); b->_storage[idx + j].r = first.current[j].r; first.current[j].r = C_MOVED; g_nctor++; }
  b->_size = (__typeof__(b->_size))(b->_size + k);
  return b->_storage + idx;
}
#endif
#ifdef BV_INSERT_RANGE
E *BV_INSERT_RANGE(BVIMPL_T *self, E *position, E *first, E *last) {
  BVEC_T *b = BV(self); uint64_t idx = bv_idx(b, position);
  uint64_t k = L0_COUNT(L0_PDIFF(last, first));
  if (k == 0) return position;
  bv_need(b, (uint64_t)b->_size + k);
  for (uint64_t i = b->_size; i > idx; i--) b->_storage[i - 1 + k].r = b->_storage[i - 1].r;
  for (uint64_t j = 0; j < k; j++) { __CPROVER_assert(c_alive(first + j), "C02 C10: every copied element is alive"); b->_storage[idx + j].r = first[j].r; g_nctor++; }
  b->_size = (__typeof__(b->_size))(b->_size + k);
  return b->_storage + idx;
}
#endif
