/* glue written in /verif (NOT repository code): the assignment operators applied to the object itself, v = v and
 * v = std::move(v).  The REAL lowered operator is called with both parameters equal -- a contract precondition "o == self"
 * cannot express this, because the verifier resolves a pointer that is merely assumed equal to a fresh object to a different
 * (invalid) object when it is dereferenced. */
VEC_T *self_assign(VEC_T *self)
/*@CONTRACT self_assign@*/
{
  return SELF_ASSIGN_FN(self, self);
}
