// C14 (converse direction): the trivially_relocatable trait each container CLAIMS, evaluated by the real compiler on the real
// headers, next to the conjunction of its parts' traits.  Prints one line per instantiation: <name> <claimed> <expected>.
// The values become obligations of a verification unit (tools/pipeline.py, unit kind 'static_facts').
#include <amc/fixedcapacityvector.hpp>
#include <amc/flatset.hpp>
#include <amc/smallset.hpp>
#include <amc/smallvector.hpp>
#include <amc/vector.hpp>
#include <cstdio>
#include <set>
struct Reloc { using trivially_relocatable = std::true_type; Reloc(); Reloc(const Reloc &); Reloc &operator=(const Reloc &); ~Reloc(); int x; };
struct NonReloc { NonReloc(); NonReloc(const NonReloc &); NonReloc &operator=(const NonReloc &); ~NonReloc(); NonReloc *self; };
struct Triv { int x; };
bool operator<(const Reloc &, const Reloc &); bool operator<(const NonReloc &, const NonReloc &); bool operator<(const Triv &, const Triv &);
template <class T> struct CmpEmpty { bool operator()(const T &, const T &) const; };
template <class T> struct CmpNonReloc { CmpNonReloc(); CmpNonReloc(const CmpNonReloc &); ~CmpNonReloc(); const void *self; bool operator()(const T &, const T &) const; };
template <class T> struct CmpDeclared { using trivially_relocatable = std::true_type; CmpDeclared(); CmpDeclared(const CmpDeclared &); ~CmpDeclared(); int state; bool operator()(const T &, const T &) const; };
#define R(...) (amc::is_trivially_relocatable<__VA_ARGS__>::value ? 1 : 0)
#define LINE(name, claimed, expected) std::printf("%s %d %d\n", name, (claimed), (expected))
template <class E, class C> void sets(const char *en, const char *cn) {
  char b[200];
  using A = amc::allocator<E>;
  using FSv = amc::FlatSet<E, C>;
  using FSs = amc::FlatSet<E, C, A, amc::SmallVector<E, 4>>;
  std::snprintf(b, sizeof b, "FlatSet<%s,%s,amc::vector>", en, cn); LINE(b, R(FSv), R(amc::vector<E>) && R(C));
  std::snprintf(b, sizeof b, "FlatSet<%s,%s,SmallVector>", en, cn); LINE(b, R(FSs), R(amc::SmallVector<E, 4>) && R(C));
  std::snprintf(b, sizeof b, "SmallSet<%s,4,%s,FlatSet>", en, cn); LINE(b, R(amc::SmallSet<E, 4, C, A, FSv>), R(amc::FixedCapacityVector<E, 4>) && R(FSv));
  std::snprintf(b, sizeof b, "SmallSet<%s,4,%s,std::set>", en, cn); LINE(b, R(amc::SmallSet<E, 4, C, A, std::set<E, C, A>>), R(amc::FixedCapacityVector<E, 4>) && R(std::set<E, C, A>));
}
template <class E> void vectors(const char *en) {
  char b[200];
  std::snprintf(b, sizeof b, "amc::vector<%s>", en); LINE(b, R(amc::vector<E>), 1);
  std::snprintf(b, sizeof b, "SmallVector<%s,4>", en); LINE(b, R(amc::SmallVector<E, 4>), R(E));
  std::snprintf(b, sizeof b, "SmallVector<%s,40>", en); LINE(b, R(amc::SmallVector<E, 40>), R(E));
  std::snprintf(b, sizeof b, "FixedCapacityVector<%s,4>", en); LINE(b, R(amc::FixedCapacityVector<E, 4>), R(E));
  sets<E, CmpEmpty<E>>(en, "CmpEmpty"); sets<E, CmpNonReloc<E>>(en, "CmpNonReloc"); sets<E, CmpDeclared<E>>(en, "CmpDeclared"); sets<E, std::less<E>>(en, "std::less");
}
int main() {
  LINE("element:Reloc", R(Reloc), 1); LINE("element:NonReloc", R(NonReloc), 0); LINE("element:Triv", R(Triv), 1);
  vectors<Reloc>("Reloc"); vectors<NonReloc>("NonReloc"); vectors<Triv>("Triv");
  return 0;
}
