/* C14 lemma: a container that declares itself trivially relocatable can be moved to another address by a raw byte copy, the
 * source being abandoned.  The copy is made with the real representation (struct copy of the header words and of the bytes
 * that hold the heap pointer / the first inline slot; the other inline slots are opaque element bytes whose ghost state
 * follows the copy).  The REAL lowered accessors are then evaluated on the copy and compared with the original. */
void lemma_relocate(BASE_T *a, BASE_T *b)
/*@CONTRACT lemma_relocate@*/
{
  uint64_t size_a = (uint64_t)LEMMA_SIZE(a), capa_a = (uint64_t)LEMMA_CAPACITY(a);
  const E *data_a = LEMMA_BEGIN(a);
  _Bool inline_a = OBJ(data_a) == OBJ(a);
  uint64_t data_off_a = OFF(data_a) - OFF(a);
  *b = *a;                                    /* raw byte copy of the object representation */
  if (g_cell_obj == OBJ(a)) g_cell_obj = OBJ(b);        /* the element bytes of the inline slots went along */
  if (g_tok_on && g_tok_obj == OBJ(a)) g_tok_obj = OBJ(b);
  __CPROVER_assert((uint64_t)LEMMA_SIZE(b) == size_a, "C14: the relocated container reports the same size");
  __CPROVER_assert((uint64_t)LEMMA_CAPACITY(b) == capa_a, "C14: the relocated container reports the same capacity");
  const E *data_b = LEMMA_BEGIN(b);
  __CPROVER_assert(inline_a ? (OBJ(data_b) == OBJ(b) && OFF(data_b) - OFF(b) == data_off_a) : data_b == data_a,
                   "C14: inline elements are found at the same offset inside the copy, a heap buffer at the same address (no pointer into the abandoned object)");
}
