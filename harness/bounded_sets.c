/* BOUNDED stand-ins (glue written in /verif, NOT repository code) for the set operations whose loops could not be closed with
 * loop contracts: FlatSet::merge (same / other comparator), range insertion, construction from a range / from a vector,
 * SmallSet::merge.  Each function builds ALL pre-states up to the bound (sizes <= BN, ranks in [0, BDOM), every comparator
 * flavour: ascending / descending / coarse), calls the REAL lowered function on real memory (concrete L0, ghost/l0c.h) and asserts
 * the std::set step function on the result.  Loops are unwound up to the bound given in contracts/units.py with unwinding
 * assertions on.  Results of these units are reported as bounded, never as proved. */
#ifndef BN
#define BN 3
#endif
#ifndef BDOM
#define BDOM 6
#endif
#define BVB(s) ((BVEC_T *)&(s)->_sortedVector)

/* the inputs of the scenario, exported under fixed names for the native replay (replay/native_sets.cpp) */
extern int64_t g_in_tok, g_in_tok2, g_in_na, g_in_nb, g_in_la, g_in_lb, g_in_a0, g_in_a1, g_in_a2, g_in_a3, g_in_b0, g_in_b1, g_in_b2, g_in_b3;
static void bs_export(int64_t tok, int64_t tok2, _Bool la, _Bool lb, uint64_t na, const int64_t *ra, uint64_t nb, const int64_t *rb) {
  g_in_tok = tok; g_in_tok2 = tok2; g_in_la = la; g_in_lb = lb; g_in_na = (int64_t)na; g_in_nb = (int64_t)nb;
  g_in_a0 = na > 0 ? ra[0] : -1; g_in_a1 = na > 1 ? ra[1] : -1; g_in_a2 = na > 2 ? ra[2] : -1; g_in_a3 = na > 3 ? ra[3] : -1;
  g_in_b0 = nb > 0 ? rb[0] : -1; g_in_b1 = nb > 1 ? rb[1] : -1; g_in_b2 = nb > 2 ? rb[2] : -1; g_in_b3 = nb > 3 ? rb[3] : -1;
}
static _Bool bs_lt(int token, int64_t a, int64_t b) {
  int64_t ka = (token & 2) ? (a >> 1) : a, kb = (token & 2) ? (b >> 1) : b;
  return (token & 1) ? ka > kb : ka < kb;
}
static _Bool bs_equiv(int token, int64_t a, int64_t b) { return !bs_lt(token, a, b) && !bs_lt(token, b, a); }

/* a sorted vector of n nondeterministic ranks, strictly increasing under the comparator 'token', in a fresh block of capacity c */
static void bs_make_vec(BVEC_T *v, int token, uint64_t n, uint64_t c, int64_t *snap) {
  __CPROVER_assume(n <= BN && c >= n && c <= BN + 1);
  E *buf = (E *)0;
  if (c) { buf = (E *)L0_malloc(c * ESZ); g_nalloc--; }
  for (uint64_t i = 0; i < n; i++) {
    int64_t r = nondet_i64();
    __CPROVER_assume(r >= 0 && r < BDOM);
    if (i > 0) __CPROVER_assume(bs_lt(token, snap[i - 1], r));
    snap[i] = r; RK(buf + i) = r;
  }
  v->_size = (__typeof__(v->_size))n; v->_capa = (__typeof__(v->_capa))c; v->_storage = buf;
}
/* an arbitrary (unsorted, possibly repeating) source range of m live elements outside any container */
static E *bs_make_range(uint64_t m, int64_t *snap) {
  __CPROVER_assume(m <= BN);
  E *buf = (E *)L0_malloc((m ? m : 1) * ESZ); g_nalloc--;
  for (uint64_t i = 0; i < m; i++) { int64_t r = nondet_i64(); __CPROVER_assume(r >= 0 && r < BDOM); snap[i] = r; RK(buf + i) = r; }
  return buf;
}
static _Bool bs_has(int token, const int64_t *a, uint64_t n, int64_t k) { for (uint64_t i = 0; i < n; i++) if (bs_equiv(token, a[i], k)) return 1; return 0; }
/* representation invariant of a FlatSet on real memory: words, order, every slot below size alive, every slot above raw */
static void bs_check_vec(const BVEC_T *v, int token, const char *dummy) {
  (void)dummy;
  uint64_t n = v->_size, c = v->_capa;
  __CPROVER_assert(n <= c && ((c == 0) == (v->_storage == (E *)0)), "C03 C01: size <= capacity, buffer present exactly when capacity is non-zero");
  for (uint64_t i = 0; c != 0 && i < L0C_MAXN; i++) {
    if (i < n) __CPROVER_assert(c_alive(v->_storage + i), "C02 C03: every visible element is alive and not moved-from");
    else __CPROVER_assert(RK(v->_storage + i) == C_RAW, "C02 C03 C08: no constructed element is left beyond size(), nothing was written beyond the capacity");
    if (i > 0 && i < n) __CPROVER_assert(bs_lt(token, RK(v->_storage + i - 1), RK(v->_storage + i)), "C03: elements are in strictly increasing comparator order (no duplicates)");
  }
}
static _Bool bs_vec_has(const BVEC_T *v, int token, int64_t k) { for (uint64_t i = 0; i < v->_size; i++) if (bs_equiv(token, RK(v->_storage + i), k)) return 1; return 0; }
static uint64_t bs_blocks(const BVEC_T *v) { return v->_capa ? 1 : 0; }

#ifdef BFS_MERGE
/* a.merge(b), both sets ordered by the same comparator object type (their tokens may differ in value only through 'other') */
void bs_flatset_merge(void) {
  BFS_T a, b;
  int tok = nondet_int(); __CPROVER_assume(tok >= 0 && tok < 4);
  g_set_cmp_token = tok; g_allow_elem_throw = 0; g_allow_alloc_fail = 0; l0_exc = 0;
  int64_t ra[BN], rb[BN];
  uint64_t na = nondet_u64(), nb = nondet_u64(), ca = nondet_u64(), cb = nondet_u64();
  a._base0.token = tok; b._base0.token = tok;
  bs_make_vec(BVB(&a), tok, na, ca, ra); bs_make_vec(BVB(&b), tok, nb, cb, rb);
  uint64_t out0 = bs_blocks(BVB(&a)) + bs_blocks(BVB(&b)), al0 = g_nalloc, de0 = g_ndealloc, ct0 = g_nctor, dt0 = g_ndtor;
  bs_export(tok, tok, 0, 0, na, ra, nb, rb);
  BFS_MERGE(&a, &b);
  __CPROVER_assert(l0_exc == 0, "C03: merge does not fail when nothing throws");
  bs_check_vec(BVB(&a), tok, "a"); bs_check_vec(BVB(&b), tok, "b");
  __CPROVER_assert((uint64_t)BVB(&a)->_size + BVB(&b)->_size == na + nb, "C03: merge neither loses nor duplicates an element");
  for (int64_t k = 0; k < BDOM; k++) {
    _Bool ia = bs_has(tok, ra, na, k), ib = bs_has(tok, rb, nb, k);
    __CPROVER_assert(bs_vec_has(BVB(&a), tok, k) == (ia || ib), "C03: after merge the receiver holds exactly the union of the two sets");
    __CPROVER_assert(bs_vec_has(BVB(&b), tok, k) == (ia && ib), "C03: the source keeps exactly the elements whose equivalent was already in the receiver");
  }
  __CPROVER_assert(a._base0.token == tok && b._base0.token == tok, "C03: the comparator objects are untouched");
  __CPROVER_assert((g_nalloc - al0) - (g_ndealloc - de0) + out0 == bs_blocks(BVB(&a)) + bs_blocks(BVB(&b)), "C06: every block obtained is owned by one of the sets or was handed back");
  __CPROVER_assert((g_nctor - ct0) == (g_ndtor - dt0), "C02: constructions and destructions balance (elements only change owner)");
  __CPROVER_assert(!(na == BN && nb == BN && BVB(&a)->_size == 2 * BN), "REACHABILITY: two full disjoint sets are merged (this assertion must fail)");
}
#endif

#ifdef BFS_MERGE_OTHER
/* a.merge(o) where o is ordered by ANOTHER comparator (type and order): a's own comparator decides */
void bs_flatset_merge_other(void) {
  BFS_T a; BFS_OTHER_T b;
  int tok = nondet_int(), tok2 = nondet_int(); __CPROVER_assume(tok >= 0 && tok < 4 && tok2 >= 0 && tok2 < 4);
  g_set_cmp_token = tok; g_allow_elem_throw = 0; g_allow_alloc_fail = 0; l0_exc = 0;
  int64_t ra[BN], rb[BN];
  uint64_t na = nondet_u64(), nb = nondet_u64(), ca = nondet_u64(), cb = nondet_u64();
  a._base0.token = tok; b._base0.token = tok2;
  bs_make_vec(BVB(&a), tok, na, ca, ra); bs_make_vec(BVB(&b), tok2, nb, cb, rb);
  uint64_t ct0 = g_nctor, dt0 = g_ndtor;
  bs_export(tok, tok2, 0, 0, na, ra, nb, rb);
  BFS_MERGE_OTHER(&a, &b);
  __CPROVER_assert(l0_exc == 0, "C03: merge does not fail when nothing throws");
  bs_check_vec(BVB(&a), tok, "a"); bs_check_vec(BVB(&b), tok2, "b");
  __CPROVER_assert((uint64_t)BVB(&a)->_size + BVB(&b)->_size == na + nb, "C03: merge neither loses nor duplicates an element");
  for (int64_t k = 0; k < BDOM; k++)
    __CPROVER_assert(bs_vec_has(BVB(&a), tok, k) == (bs_has(tok, ra, na, k) || bs_has(tok, rb, nb, k)), "C03: after merge the receiver holds exactly the union, classes taken under ITS comparator");
  /* an element stays in the source exactly when the receiver already had an equivalent one -- by value, element by element */
  for (uint64_t i = 0; i < nb; i++) {
    _Bool stays = 0;
    for (uint64_t j = 0; j < BVB(&b)->_size; j++) if (RK(BVB(&b)->_storage + j) == rb[i]) stays = 1;
    /* an element of the source is blocked by the receiver's original elements or by an equivalent element of the source merged earlier */
    _Bool blocked = bs_has(tok, ra, na, rb[i]);
    for (uint64_t j = 0; j < i; j++) if (bs_equiv(tok, rb[j], rb[i])) blocked = 1;
    __CPROVER_assert(stays == blocked, "C03: a source element stays behind exactly when an equivalent element (under the receiver's comparator) was present or came first");
  }
  __CPROVER_assert((g_nctor - ct0) == (g_ndtor - dt0), "C02: constructions and destructions balance");
  __CPROVER_assert(!(na == BN && nb == BN && BVB(&b)->_size == 1), "REACHABILITY: one element of the source stays behind (this assertion must fail)");
}
#endif

#ifdef BFS_INSERT_RANGE
/* s.insert(first, last) with an arbitrary source range */
void bs_flatset_insert_range(void) {
  BFS_T a;
  int tok = nondet_int(); __CPROVER_assume(tok >= 0 && tok < 4);
  g_set_cmp_token = tok; g_allow_elem_throw = 0; g_allow_alloc_fail = 0; l0_exc = 0;
  int64_t ra[BN], rs[BN];
  uint64_t na = nondet_u64(), ca = nondet_u64(), m = nondet_u64();
  a._base0.token = tok;
  bs_make_vec(BVB(&a), tok, na, ca, ra);
  E *src = bs_make_range(m, rs);
  uint64_t ct0 = g_nctor, dt0 = g_ndtor;
  bs_export(tok, tok, 0, 0, na, ra, m, rs);
  BFS_INSERT_RANGE(&a, src, src + m);
  __CPROVER_assert(l0_exc == 0, "C03: range insertion does not fail when nothing throws");
  bs_check_vec(BVB(&a), tok, "a");
  uint64_t classes = 0;
  for (int64_t k = 0; k < BDOM; k++) {
    _Bool want = bs_has(tok, ra, na, k) || bs_has(tok, rs, m, k);
    __CPROVER_assert(bs_vec_has(BVB(&a), tok, k) == want, "C03: after insert(first, last) the set holds exactly the old elements and the classes of the range");
  }
  /* an element that was in the set before is still THE representative of its class (std::set never replaces) */
  for (uint64_t i = 0; i < na; i++) { _Bool kept = 0; for (uint64_t j = 0; j < BVB(&a)->_size; j++) if (RK(BVB(&a)->_storage + j) == ra[i]) kept = 1; __CPROVER_assert(kept, "C03: elements already in the set are kept, never replaced by an equivalent one of the range"); }
  for (uint64_t i = 0; i < m; i++) __CPROVER_assert(RK(src + i) == rs[i], "C03 C20: the source range is only read");
  __CPROVER_assert((g_nctor - ct0) - (g_ndtor - dt0) == (uint64_t)BVB(&a)->_size - na, "C02: live-object balance: exactly the new elements were created");
  (void)classes;
  __CPROVER_assert(!(na == BN && m == BN && BVB(&a)->_size == BN + 1), "REACHABILITY: a range with one new class and one duplicate is inserted (this assertion must fail)");
}
#endif

#ifdef BFS_FROM_VECTOR
/* FlatSet(vector&&, comp) / operator=(vector&&): the vector is adopted, sorted, duplicates removed */
void bs_flatset_from_vector(void) {
  BFS_T a;
  int tok = nondet_int(); __CPROVER_assume(tok >= 0 && tok < 4);
  g_set_cmp_token = tok; g_allow_elem_throw = 0; g_allow_alloc_fail = 0; l0_exc = 0;
  int64_t rs[BN];
  uint64_t m = nondet_u64(), c = nondet_u64();
  __CPROVER_assume(m <= BN && c >= m && c <= BN + 1);
  BFS_VECTOR_T v;
  E *buf = (E *)0;
  if (c) { buf = (E *)L0_malloc(c * ESZ); g_nalloc--; }
  for (uint64_t i = 0; i < m; i++) { int64_t r = nondet_i64(); __CPROVER_assume(r >= 0 && r < BDOM); rs[i] = r; RK(buf + i) = r; }
  ((BVEC_T *)&v)->_size = (__typeof__(((BVEC_T *)&v)->_size))m; ((BVEC_T *)&v)->_capa = (__typeof__(((BVEC_T *)&v)->_capa))c; ((BVEC_T *)&v)->_storage = buf;
  struct GhostCmp cmp; cmp.token = tok;
  uint64_t ct0 = g_nctor, dt0 = g_ndtor;
  bs_export(tok, tok, 0, 0, 0, rs, m, rs);
  BFS_FROM_VECTOR(&a, &v, &cmp);
  __CPROVER_assert(l0_exc == 0, "C03: construction from a vector does not fail when nothing throws");
  __CPROVER_assert(a._base0.token == tok, "C03: the set stores the comparator it was given");
  bs_check_vec(BVB(&a), tok, "a");
  for (int64_t k = 0; k < BDOM; k++) __CPROVER_assert(bs_vec_has(BVB(&a), tok, k) == bs_has(tok, rs, m, k), "C03: the set holds exactly the classes of the vector's elements, once each");
  __CPROVER_assert(((BVEC_T *)&v)->_size == 0, "C03: the vector has been moved from");
  __CPROVER_assert((g_ndtor - dt0) - (g_nctor - ct0) == m - (uint64_t)BVB(&a)->_size, "C02: exactly the duplicates were destroyed");
  __CPROVER_assert(!(m == BN && BVB(&a)->_size == 1), "REACHABILITY: a vector of equivalent elements collapses to one (this assertion must fail)");
}
#endif

#ifdef BSS_MERGE
/* ------------------------------------------------------------------------------------------------ SmallSet::merge
 * each operand is either inline (at most BSS_N pairwise non-equivalent elements in arbitrary order, large container empty) or
 * large (inline part empty, the abstract large container holds the elements).  Receiver: up to BSS_N inline / 3 large elements;
 * argument: up to 2 inline / 2 large elements. */
#define BSV(s) ((struct StaticVectorBase_E_u8 *)&(s)->_vec)
#define BSD(s) ((E *)&BSV(s)->_firstEl)
static void bs_make_ss(BSS_T *s, int idx, int tok, _Bool large, uint64_t n, uint64_t nmax_inl, uint64_t nmax_set, int64_t *snap) {
  BSV(s)->_capa = BSS_N;
  for (uint64_t i = 0; i < BSS_N; i++) RK(BSD(s) + i) = C_RAW;
  g_cs[idx].obj = OBJ(&s->_set); g_cs[idx].off = OFF(&s->_set); g_cs[idx].n = 0;
  for (uint64_t i = 0; i < CS_MAX; i++) RK(g_cs[idx].buf + i) = C_RAW;
  __CPROVER_assume(large ? (n >= 1 && n <= nmax_set) : n <= nmax_inl);
  for (uint64_t i = 0; i < n; i++) {
    int64_t r = nondet_i64();
    __CPROVER_assume(r >= 0 && r < BDOM);
    if (large) { if (i > 0) __CPROVER_assume(bs_lt(tok, snap[i - 1], r)); RK(g_cs[idx].buf + i) = r; }
    else { for (uint64_t j = 0; j < i; j++) __CPROVER_assume(!bs_equiv(tok, snap[j], r)); RK(BSD(s) + i) = r; }
    snap[i] = r;
  }
  BSV(s)->_size = large ? 0 : (uint8_t)n;
  if (large) g_cs[idx].n = n;
}
static _Bool bs_ss_has(BSS_T *s, int idx, int tok, int64_t k) {
  for (uint64_t i = 0; i < BSV(s)->_size; i++) if (bs_equiv(tok, RK(BSD(s) + i), k)) return 1;
  for (uint64_t i = 0; i < g_cs[idx].n; i++) if (bs_equiv(tok, RK(g_cs[idx].buf + i), k)) return 1;
  return 0;
}
static void bs_check_ss(BSS_T *s, int idx, int tok) {
  uint64_t n = BSV(s)->_size;
  __CPROVER_assert(n <= BSS_N && BSV(s)->_capa == BSS_N, "C04 C05: the inline part holds at most N elements");
  __CPROVER_assert(n == 0 || g_cs[idx].n == 0, "C04: never both the inline part and the large container non-empty");
  for (uint64_t i = 0; i < BSS_N; i++) {
    if (i < n) __CPROVER_assert(c_alive(BSD(s) + i), "C02 C04: every inline element is alive and not moved-from");
    else __CPROVER_assert(RK(BSD(s) + i) == C_RAW, "C02 C04: no constructed element is left beyond the inline size");
    for (uint64_t j = 0; j < i && i < n; j++) __CPROVER_assert(!bs_equiv(tok, RK(BSD(s) + i), RK(BSD(s) + j)), "C04: inline elements are pairwise non-equivalent");
  }
  for (uint64_t i = 0; i < g_cs[idx].n; i++) __CPROVER_assert(c_alive(g_cs[idx].buf + i), "C02 C04: every element of the large container is alive");
}
void bs_smallset_merge(void) {
  BSS_T a, b;
  int tok = nondet_int(); __CPROVER_assume(tok >= 0 && tok < 4);
  g_set_cmp_token = tok; g_allow_elem_throw = 0; g_allow_alloc_fail = 0; l0_exc = 0;
  int64_t ra[BSS_N], rb[BSS_N];
  _Bool la = nondet_bool(), lb = nondet_bool();
#ifdef BSS_LA
  la = BSS_LA; lb = BSS_LB;          /* one unit per combination of states (inline / large) of the two operands */
#endif
#ifdef BSS_TOK
  __CPROVER_assume(tok == BSS_TOK);     /* one unit per comparator flavour */
#endif
  uint64_t na = nondet_u64(), nb = nondet_u64();
#ifdef BSS_NA_LO
  __CPROVER_assume(na >= BSS_NA_LO && na <= BSS_NA_HI);     /* one unit per size class of the receiver */
#endif
  bs_make_ss(&a, 0, tok, la, na, BSS_N, 3, ra); bs_make_ss(&b, 1, tok, lb, nb, 2, 2, rb);
  uint64_t ct0 = g_nctor, dt0 = g_ndtor;
  bs_export(tok, tok, la, lb, na, ra, nb, rb);
  BSS_MERGE(&a, &b);
  __CPROVER_assert(l0_exc == 0, "C04: merge does not fail when nothing throws");
  bs_check_ss(&a, 0, tok); bs_check_ss(&b, 1, tok);
  uint64_t sa = BSV(&a)->_size + g_cs[0].n, sb = BSV(&b)->_size + g_cs[1].n;
  __CPROVER_assert(sa + sb == na + nb, "C04: merge neither loses nor duplicates an element");
  uint64_t uni = 0;
  for (int64_t k = 0; k < BDOM; k++) {
    _Bool ia = bs_has(tok, ra, na, k), ib = bs_has(tok, rb, nb, k);
    __CPROVER_assert(bs_ss_has(&a, 0, tok, k) == (ia || ib), "C04: after merge the receiver holds exactly the union of the two sets");
    __CPROVER_assert(bs_ss_has(&b, 1, tok, k) == (ia && ib), "C04: the source keeps exactly the elements whose equivalent was already in the receiver");
  }
  __CPROVER_assert(!(!la && !lb && sa <= BSS_N) || g_cs[0].n == 0, "C05: a merge whose result fits the inline capacity keeps the receiver inline");
  __CPROVER_assert((g_nctor - ct0) == (g_ndtor - dt0), "C02: constructions and destructions balance (elements only change owner)");
  (void)uni;
  __CPROVER_assert(!(nb >= 1 && sb + 1 == nb), "REACHABILITY: exactly one element of the argument moves over (this assertion must fail)");
}
#endif
