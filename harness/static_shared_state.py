#!/usr/bin/env python3
"""C20 supporting static fact, computed by the real compiler front end on the real headers on every run:
the library declares no storage that const members or operations on distinct objects could share --
  (a) no object with static storage duration that is not const / constexpr (function-local statics of templates and
      member functions included: clang's AST keeps the uninstantiated patterns, so no instantiation is needed),
  (b) no `mutable` data member.
Usage: static_shared_state.py <repo>      prints TSV lines  label <TAB> claimed <TAB> expected  (one obligation each).
What it does not see: writes through const_cast / pointers to non-const (those are frame obligations of the lowered const
members under contract), state inside the standard library, thread_local objects are reported like statics."""
import os, re, subprocess, sys, tempfile

repo = sys.argv[1]
inc = os.path.join(repo, 'include')
hdrs = sorted(f for f in os.listdir(os.path.join(inc, 'amc')) if f.endswith('.hpp'))
CONFIGS = [('c++11', []), ('c++17', ['-DAMC_NONSTD_FEATURES']), ('c++20', ['-DAMC_NONSTD_FEATURES'])]
CXX17_ONLY = ('smallset.hpp',)      # needs std::variant / std::optional: parsed in the C++17 and C++20 configurations only
FUNC = ('FunctionDecl', 'CXXMethodDecl', 'CXXConstructorDecl', 'CXXDestructorDecl', 'CXXConversionDecl', 'LambdaExpr')
node_re = re.compile(r'^([ |`-]*)([A-Za-z]+) (0x[0-9a-f]+) (.*)$')

def is_const(rest):
    if re.search(r"\bconstexpr\b", rest.split("'")[-1]):
        return True
    m = re.search(r"'([^']*)'", rest)
    if not m:
        return False
    t = m.group(1).strip()
    if t.endswith('const'):
        return True
    return t.startswith('const ') and '*' not in t and '&' not in t

statics, mutables, seen_fields, seen_vars = {}, {}, 0, 0
for std, defs in CONFIGS:
    with tempfile.NamedTemporaryFile('w', suffix='.cpp', delete=False) as tu:
        tu.write(''.join('#include <amc/%s>\n' % h for h in hdrs if not (std in ('c++11', 'c++14') and h in CXX17_ONLY)))
    try:
        r = subprocess.run(['clang++', '-std=' + std] + defs + ['-I' + inc, '-fsyntax-only', '-fno-color-diagnostics', '-Xclang', '-ast-dump',
                            '-Xclang', '-ast-dump-filter=amc::', tu.name], capture_output=True, text=True)
    finally:
        os.unlink(tu.name)
    if r.returncode != 0:
        sys.stderr.write(r.stderr[-2000:]); sys.exit(3)
    stack = []          # (depth, kind)
    for line in r.stdout.split('\n'):
        m = node_re.match(line)
        if not m:
            continue
        depth, kind, rest = len(m.group(1)), m.group(2), m.group(4)
        while stack and stack[-1][0] >= depth:
            stack.pop()
        in_func = any(k in FUNC for d, k in stack)
        stack.append((depth, kind))
        loc = re.search(r'<([^>]*)>', rest)
        nm = re.search(r"(\w+) '", rest)
        name = nm.group(1) if nm else '?'
        if kind == 'FieldDecl':
            seen_fields += 1
            if re.search(r"' mutable\b", rest) or rest.rstrip().endswith(' mutable'):
                mutables[name] = std
        elif kind == 'VarDecl':
            seen_vars += 1
            tail = rest.split("'")[-1]
            is_static = bool(re.search(r'\bstatic\b', tail)) or bool(re.search(r'\bextern\b', tail)) or not in_func
            if re.search(r'\btls(_dynamic)?\b', tail):
                is_static = True
            if is_static and not is_const(rest):
                statics[name] = std

def names(d):
    return ', '.join('%s (%s)' % kv for kv in sorted(d.items())) or 'none'

print('no object of namespace amc with static storage duration is writable - nothing is shared between containers or threads (found: %s)\t%d\t0' % (names(statics), len(statics)))
print('no class of namespace amc has a mutable data member - a const member cannot write to its object (found: %s)\t%d\t0' % (names(mutables), len(mutables)))
print('the scan saw the declarations of the headers (%d variables, %d data members over %d configurations)\t%d\t1' % (seen_vars, seen_fields, len(CONFIGS), 1 if seen_vars > 20 and seen_fields > 10 else 0))
