// Known findings KF-C09-insert-count-throw and KF-C09-insert-range-throw (C09, C02): insert(pos, count, v) / insert(pos, first, last)
// in the MIDDLE of a vector with spare capacity, when the k-th element copy throws while the gap is being filled:
// the tail has already been shifted, so moved-from elements stay visible inside [0, size()) and constructed elements are left
// beyond size() (never destroyed).  Basic exception guarantee broken.
// build: g++ -std=c++17 -DAMC_NONSTD_FEATURES -I/repo/include kf_insert_middle_throw.cpp && ./a.out   (exit 1 = finding present)
#include <amc/vector.hpp>
#include <amc/smallvector.hpp>
#include <cstdio>
#include <set>
#include <stdexcept>
static std::set<const void *> live;
static int copies_until_throw = -1;
struct T {
  int v; bool moved = false;
  explicit T(int x = 0) : v(x) { live.insert(this); }
  T(const T &o) : v(o.v) { if (copies_until_throw == 0) throw std::runtime_error("copy"); if (copies_until_throw > 0) --copies_until_throw; live.insert(this); }
  T(T &&o) noexcept : v(o.v) { o.moved = true; live.insert(this); }
  T &operator=(const T &o) { if (copies_until_throw == 0) throw std::runtime_error("copy"); if (copies_until_throw > 0) --copies_until_throw; v = o.v; moved = false; return *this; }
  T &operator=(T &&o) noexcept { v = o.v; moved = false; o.moved = true; return *this; }
  ~T() { live.erase(this); }
};
template <class V, class F> static int run(const char *what, F op) {
  int bad = 0;
  for (int k = 0; k < 4; ++k) {
    live.clear();
    {
      V v; v.reserve(16);
      for (int i = 0; i < 5; ++i) v.emplace_back(i);
      size_t before = live.size();
      copies_until_throw = k;
      bool threw = false;
      try { op(v); } catch (const std::runtime_error &) { threw = true; }
      copies_until_throw = -1;
      if (!threw) continue;
      size_t moved_visible = 0;
      for (auto &e : v) moved_visible += e.moved;
      size_t extra = live.size() - before;      // objects alive that are neither the original 5 (before) ...
      size_t in_container = v.size();
      if (moved_visible || live.size() != before - 5 + in_container) {
        std::printf("%s, throw at copy %d: size()=%zu, moved-from elements visible=%zu, live objects=%zu (expected %zu)\n", what, k, in_container, moved_visible, live.size(), before - 5 + in_container);
        bad = 1;
      }
      (void)extra;
    }
  }
  return bad;
}
int main() {
  int bad = 0;
  T val(99); T src[3] = {T(7), T(8), T(9)};
  bad |= run<amc::vector<T>>("amc::vector insert(pos, 3, v)", [&](amc::vector<T> &v) { v.insert(v.begin() + 1, 3, val); });
  bad |= run<amc::vector<T>>("amc::vector insert(pos, first, last)", [&](amc::vector<T> &v) { v.insert(v.begin() + 1, src, src + 3); });
  bad |= run<amc::SmallVector<T, 16>>("SmallVector insert(pos, first, last)", [&](amc::SmallVector<T, 16> &v) { v.insert(v.begin() + 1, src, src + 3); });
  std::printf(bad ? "FINDING PRESENT\n" : "OK\n");
  return bad;
}
