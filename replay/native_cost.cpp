// Native cost replay for C19 (real headers, counting comparator).  Used by tools/check.py ONLY after the verifier has reported a
// loop without a loop contract inside a function that a C19 unit depends on (the obligation `<function>.unwind.<k>` that holds on
// the unchanged tree -- no such loop exists there -- and fails now): the abstract set model cannot follow a scan over unregistered
// elements, so the candidate violation is replayed here.  Prints `FAIL ...` lines (failing inputs) and exits 1 when a bound of
// the property is exceeded on the real code, exits 0 otherwise (the verdict then stays "undecided").
//   bounds (property C19): lookups and the position search of insert / emplace / erase(key): 2*ceil(log2(n+1)) + 4 comparator calls;
//   insertion with a correct hint: a constant (8) independent of n; SmallSet<T,N> in its inline state: 2N + 2 per lookup.
#include <amc/flatset.hpp>
#include <amc/smallset.hpp>
#include <amc/vector.hpp>
#include <cstdio>
#include <cstdlib>

static long g_calls = 0;
template <class T>
struct CountingLess {
  bool operator()(const T &a, const T &b) const { ++g_calls; return a < b; }
};
struct Wide { long long k; long long pad[7]; bool operator<(const Wide &o) const { return k < o.k; } bool operator==(const Wide &o) const { return k == o.k; } };
template <class T> T mk(long v);
template <> int mk<int>(long v) { return (int)v; }
template <> long long mk<long long>(long v) { return v; }
template <> Wide mk<Wide>(long v) { Wide w{}; w.k = v; return w; }

static int ceil_log2(unsigned long x) { int r = 0; unsigned long p = 1; while (p < x) { p <<= 1; ++r; } return r; }
static int g_fail = 0;
static void report(const char *type, const char *op, long n, long key, long calls, long bound) {
  if (g_fail < 12) std::printf("FAIL type=%s op=%s n=%ld key=%ld (elements are 0,2,4,...,2n-2) comparator_calls=%ld bound=%ld\n", type, op, n, key, calls, bound);
  ++g_fail;
}
#define COST(type, opname, n, key, bound, stmt) do { g_calls = 0; stmt; if (g_calls > (bound)) report(type, opname, n, key, g_calls, bound); } while (0)

template <class T>
static void flat(const char *type, long maxn) {
  using Set = amc::FlatSet<T, CountingLess<T>>;
  for (long n = 0; n <= maxn; ++n) {
    Set s;
    for (long i = 0; i < n; ++i) s.insert(s.end(), mk<T>(2 * i));
    const Set &cs = s;
    long lg = 2 * ceil_log2((unsigned long)n + 1) + 4;
    for (long key = -1; key <= 2 * n; ++key) {
      T k = mk<T>(key);
      COST(type, "find", n, key, lg, (void)cs.find(k));
      COST(type, "contains", n, key, lg, (void)cs.contains(k));
      COST(type, "count", n, key, lg, (void)cs.count(k));
      COST(type, "lower_bound", n, key, lg, (void)cs.lower_bound(k));
      COST(type, "upper_bound", n, key, lg, (void)cs.upper_bound(k));
      COST(type, "equal_range", n, key, lg, (void)cs.equal_range(k));
      { Set c(s); COST(type, "insert(value)", n, key, lg, c.insert(k)); }
      { Set c(s); COST(type, "emplace", n, key, lg, c.emplace(k)); }
      { Set c(s); COST(type, "erase(key)", n, key, lg, c.erase(k)); }
      if (key < 0 || (key & 1)) {      // absent key: the correct hint is its lower bound
        Set c(s);
        auto hint = c.lower_bound(k);
        COST(type, "insert(correct hint)", n, key, 8, c.insert(hint, k));
      }
    }
  }
}

template <unsigned N>
static void small_inline() {
  using Set = amc::SmallSet<int, N, CountingLess<int>>;
  for (long n = 0; n <= (long)N; ++n) {
    Set s;
    for (long i = 0; i < n; ++i) s.insert((int)(2 * ((i * 5) % (long)N)));   // unsorted insertion order, distinct keys
    const Set &cs = s;
    for (long key = -1; key <= 2 * (long)N; ++key) {
      COST("SmallSet<int,N>", "find (inline)", n, key, 2 * (long)N + 2, (void)cs.find((int)key));
      COST("SmallSet<int,N>", "contains (inline)", n, key, 2 * (long)N + 2, (void)cs.contains((int)key));
      COST("SmallSet<int,N>", "count (inline)", n, key, 2 * (long)N + 2, (void)cs.count((int)key));
    }
  }
}

int main() {
  flat<int>("FlatSet<int>", 160);
  flat<long long>("FlatSet<long long>", 96);
  flat<Wide>("FlatSet<Wide(64 bytes)>", 48);
  small_inline<7>();
  small_inline<16>();
  if (g_fail) { std::printf("%d failing inputs\n", g_fail); return 1; }
  std::printf("OK: every bound of C19 held on the inputs explored\n");
  return 0;
}
