// Native replay of a verifier counterexample against the REAL headers (/repo/include), built per replay with
//   g++ -std=c++17 -DAMC_NONSTD_FEATURES -fsanitize=address,undefined -DR_FLAVOUR=.. -DR_N=.. -DR_SIZE_T=.. -DR_TR=0/1 ...
// The scenario (pre-state, operation, arguments) comes from the command line; element type, allocator and comparator are
// instrumented; std::vector is the oracle.  Exit 1 = the real code misbehaves on this input (violation reproduced),
// exit 0 = behaves as specified, exit 3 = scenario not constructible.
#include <amc/fixedcapacityvector.hpp>
#include <amc/smallvector.hpp>
#include <amc/vector.hpp>

#include <cstdint>
#include <cstdio>
#include <cstdlib>
#include <cstring>
#include <map>
#include <set>
#include <stdexcept>
#include <string>
#include <vector>

// ---------------------------------------------------------------------------------------------- instrumented element
struct Ledger {
  std::map<const void *, int> alive;   // address -> 1 alive, 2 moved-from
  long copies = 0;
  long liveCount = 0;
  long throwAt = -1;                   // the k-th copy construction / assignment throws
  std::vector<std::string> errors;
  void err(const std::string &s) { if (errors.size() < 20) errors.push_back(s); }
};
static Ledger L;
struct ElemThrow {};

struct Tracked {
#if R_TR
  using trivially_relocatable = std::true_type;
#endif
  int v;
  const Tracked *self;
#if R_TR
  void born() { ++L.liveCount; self = this; }
#else
  void born() {
    if (L.alive.count(this)) L.err("construction over a live object");
    L.alive[this] = 1; self = this;
  }
#endif
  void checkAlive(const char *what) const {
#if R_TR
    (void)what; return;
#endif
    auto it = L.alive.find(this);
    if (it == L.alive.end()) L.err(std::string(what) + ": object is not alive");
#if !R_TR
    else if (self != this) L.err(std::string(what) + ": object was moved by a raw byte copy (self pointer stale)");
#endif
  }
  static void maybeThrow() { if (L.throwAt >= 0 && L.copies++ == L.throwAt) throw ElemThrow(); }
  Tracked() : v(-7) { born(); }
  explicit Tracked(int x) : v(x) { born(); }
  Tracked(const Tracked &o) : v(o.v) {
    maybeThrow();
#if !R_TR
    if (!L.alive.count(&o)) L.err("copy from an object that is not alive"); else if (L.alive[&o] == 2) L.err("copy from a moved-from object");
#endif
    born();
  }
  Tracked(Tracked &&o) noexcept : v(o.v) {
#if R_TR
    born(); return;
#endif
    if (!L.alive.count(&o)) L.err("move from an object that is not alive"); else if (L.alive[&o] == 2) L.err("move from a moved-from object");
    if (L.alive.count(&o)) L.alive[&o] = 2;
    born();
  }
  Tracked &operator=(const Tracked &o) {
    maybeThrow();
    checkAlive("copy assignment target");
#if R_TR
    v = o.v; return *this;
#endif
    if (!L.alive.count(&o)) L.err("copy assignment from an object that is not alive"); else if (L.alive[&o] == 2 && &o != this) L.err("copy assignment from a moved-from object");
    v = o.v; if (L.alive.count(this)) L.alive[this] = 1;
    return *this;
  }
  Tracked &operator=(Tracked &&o) noexcept {
    checkAlive("move assignment target");
    if (&o == this) L.err("element move-assigned onto itself");
#if R_TR
    v = o.v; return *this;
#endif
    if (!L.alive.count(&o)) L.err("move assignment from an object that is not alive"); else if (L.alive[&o] == 2) L.err("move assignment from a moved-from object");
    v = o.v; if (L.alive.count(this)) L.alive[this] = 1; if (&o != this && L.alive.count(&o)) L.alive[&o] = 2;
    return *this;
  }
  ~Tracked() {
#if R_TR
    --L.liveCount; return;
#endif
    auto it = L.alive.find(this);
    if (it == L.alive.end()) L.err("destruction of an object that is not alive (destroyed twice?)"); else L.alive.erase(it);
  }
};
#if R_TR
// byte-wise relocation is legal for this type: the ledger follows the bytes lazily (an object found at an address it was not
// constructed at is accepted when its payload says it is a relocated live object)
#endif

// ---------------------------------------------------------------------------------------------- instrumented allocator
struct AllocLedger { std::map<void *, size_t> blocks; long nalloc = 0, nrealloc = 0, nfree = 0; long failAt = -1; long calls = 0; };
static AllocLedger A;
struct CountingBasic {
  void *allocate(size_t n) { if (A.failAt >= 0 && A.calls++ == A.failAt) throw std::bad_alloc(); void *p = std::malloc(n ? n : 1); A.blocks[p] = n; ++A.nalloc; return p; }
  void *reallocate(void *p, size_t oldSz, size_t newSz) {
    if (A.failAt >= 0 && A.calls++ == A.failAt) throw std::bad_alloc();
    if (p) { auto it = A.blocks.find(p); if (it == A.blocks.end()) L.err("reallocate of an unknown block"); else { if (it->second != oldSz) L.err("reallocate given a wrong old size"); A.blocks.erase(it); } }
    void *q = std::realloc(p, newSz ? newSz : 1); A.blocks[q] = newSz; ++A.nrealloc; return q;
  }
  void deallocate(void *p, size_t n) {
    if (!p) return;
    auto it = A.blocks.find(p);
    if (it == A.blocks.end()) L.err("deallocate of an unknown block (double free?)"); else { if (it->second != n) L.err("deallocate with a size different from the allocation"); A.blocks.erase(it); }
    ++A.nfree; std::free(p);
  }
};
using Alloc = amc::BasicAllocatorWrapper<Tracked, CountingBasic>;

#ifndef R_N
#define R_N 4
#endif
#ifndef R_SIZE_T
#define R_SIZE_T uint8_t
#endif
#if R_FLAVOUR == 1
using Vec = amc::SmallVector<Tracked, R_N, Alloc, R_SIZE_T>;
#elif R_FLAVOUR == 2
using Vec = amc::vector<Tracked, Alloc, R_SIZE_T>;
#else
using Vec = amc::FixedCapacityVector<Tracked, R_N, amc::vec::ExceptionGrowingPolicy, R_SIZE_T>;
#endif
#ifndef R_N2
#define R_N2 R_N
#endif
#ifndef R_SIZE2_T
#define R_SIZE2_T R_SIZE_T
#endif
#ifndef R_FLAVOUR2
#define R_FLAVOUR2 R_FLAVOUR
#endif
#if R_FLAVOUR2 == 1
using Vec2 = amc::SmallVector<Tracked, R_N2, Alloc, R_SIZE2_T>;
#elif R_FLAVOUR2 == 2
using Vec2 = amc::vector<Tracked, Alloc, R_SIZE2_T>;
#else
using Vec2 = amc::FixedCapacityVector<Tracked, R_N2, amc::vec::ExceptionGrowingPolicy, R_SIZE2_T>;
#endif

struct Scenario {
  std::map<std::string, long> n;
  std::string op;
  long get(const char *k, long d = 0) const { auto it = n.find(k); return it == n.end() ? d : it->second; }
};

// build the pre-state through the public API only
template <class V> static bool build(V &v, std::vector<int> &model, bool heap, long size, long capa, int base) {
  try {
#if 1
    if (heap) {
      if ((unsigned long)capa > (unsigned long)v.max_size()) return false;
      v.reserve(static_cast<typename V::size_type>(capa));
      if ((long)v.capacity() != capa && (long)v.capacity() < capa) return false;
    }
#endif
    for (long i = 0; i < size; ++i) { v.emplace_back(base + (int)i); model.push_back(base + (int)i); }
  } catch (...) { return false; }
  return true;
}
template <class V> static std::vector<int> contents(const V &v) { std::vector<int> r; for (const auto &e : v) r.push_back(e.v); return r; }
static std::string show(const std::vector<int> &a) { std::string s = "["; for (size_t i = 0; i < a.size() && i < 24; ++i) s += std::to_string(a[i]) + (i + 1 < a.size() ? "," : ""); return s + (a.size() > 24 ? "...]" : "]"); }

static int runOnce(const Scenario &S, long throwAt, long allocFailAt) {
  L = Ledger(); A = AllocLedger();
  int bad = 0;
  {
    Vec v; std::vector<int> m;
    if (!build(v, m, S.get("heap"), S.get("size"), S.get("capa"), 100)) return 3;
    Vec2 o; std::vector<int> mo;
    bool two = S.op == "swap2" || S.op == "op_assign_move" || S.op == "swap";
    const bool otherObj = S.op == "copy_ctor" || S.op == "move_ctor" || S.op == "count_ctor";   // the object under test is a new vector, not v
    if (two && !build(o, mo, S.get("o_heap"), S.get("o_size"), S.get("o_capa"), 500)) return 3;
    Tracked ext(42);
    const long pos = S.get("pos"), pos2 = S.get("pos2"), count = S.get("count"), src = S.get("src");
    const bool alias = S.get("alias") && src < (long)v.size();
    const Tracked *arg = alias ? &v[static_cast<typename Vec::size_type>(src)] : &ext;
    const int argv = arg->v;
    const size_t capBefore = v.capacity(); const void *dataBefore = v.data();
    const long allocsBefore = A.nalloc + A.nrealloc;
    L.copies = 0; L.throwAt = throwAt; A.calls = 0; A.failAt = allocFailAt;
    bool threw = false; std::string what;
    long ret = -1;
    std::vector<int> before = m, beforeO = mo;
    try {
      if (S.op == "push_back_rE") { v.push_back(*arg); m.push_back(argv); }
      else if (S.op == "push_back_rrE") { v.push_back(Tracked(42)); m.push_back(42); }
      else if (S.op == "emplace_back_rE") { v.emplace_back(*arg); m.push_back(argv); }
      else if (S.op == "pop_back_v") { v.pop_back(); m.pop_back(); }
      else if (S.op == "clear_v") { v.clear(); m.clear(); }
      else if (S.op == "insert_pE_rE") { ret = v.insert(v.begin() + pos, *arg) - v.begin(); m.insert(m.begin() + pos, argv); }
      else if (S.op == "insert_pE_rrE") { ret = v.insert(v.begin() + pos, Tracked(42)) - v.begin(); m.insert(m.begin() + pos, 42); }
      else if (S.op == "emplace_pE_rE") { ret = v.emplace(v.begin() + pos, *arg) - v.begin(); m.insert(m.begin() + pos, argv); }
      else if (S.op == "insert_count") { ret = v.insert(v.begin() + pos, static_cast<typename Vec::size_type>(count), *arg) - v.begin(); m.insert(m.begin() + pos, (size_t)count, argv); }
      else if (S.op == "erase_pE") { ret = v.erase(v.begin() + pos) - v.begin(); m.erase(m.begin() + pos); }
      else if (S.op == "erase_pE_pE") { ret = v.erase(v.begin() + pos, v.begin() + pos2) - v.begin(); m.erase(m.begin() + pos, m.begin() + pos2); }
      else if (S.op == "resize") { v.resize(static_cast<typename Vec::size_type>(count)); m.resize((size_t)count, -7); }
      else if (S.op == "resize_v") { v.resize(static_cast<typename Vec::size_type>(count), *arg); m.resize((size_t)count, argv); }
      else if (S.op == "assign_count") { v.assign(static_cast<typename Vec::size_type>(count), *arg); m.assign((size_t)count, argv); }
      else if (S.op == "append_count") { v.append(static_cast<typename Vec::size_type>(count)); m.insert(m.end(), (size_t)count, -7); }
      else if (S.op == "append_count_v") { v.append(static_cast<typename Vec::size_type>(count), *arg); m.insert(m.end(), (size_t)count, argv); }
      else if (S.op == "assign_range" || S.op == "insert_range" || S.op == "append_range") {
        std::vector<Tracked> srcv; for (long i = 0; i < S.get("cnt"); ++i) srcv.emplace_back(900 + (int)i);
        std::vector<int> srcm; for (const auto &e : srcv) srcm.push_back(e.v);
        L.copies = 0;
        if (S.op == "assign_range") { v.assign(srcv.data(), srcv.data() + srcv.size()); m = srcm; }
        else if (S.op == "append_range") { v.append(srcv.data(), srcv.data() + srcv.size()); m.insert(m.end(), srcm.begin(), srcm.end()); }
        else { ret = v.insert(v.begin() + pos, srcv.data(), srcv.data() + srcv.size()) - v.begin(); m.insert(m.begin() + pos, srcm.begin(), srcm.end()); }
        L.throwAt = -1;
      }
      else if (S.op == "pop_back_val") { Tracked t = v.pop_back_val(); if (t.v != m.back()) { std::printf("MISBEHAVIOUR: pop_back_val returned %d, expected %d\n", t.v, m.back()); bad = 1; } m.pop_back(); }
      else if (S.op == "copy_assign") { Vec w; std::vector<int> mw; if (!build(w, mw, S.get("o_heap"), S.get("o_size"), S.get("o_capa"), 500)) return 3; L.copies = 0; v = w; m = mw; L.throwAt = -1; if (contents(w) != mw) { std::printf("MISBEHAVIOUR: source of the copy assignment changed\n"); bad = 1; } }
      else if (S.op == "copy_ctor") { L.copies = 0; Vec w(v); L.throwAt = -1; if (contents(w) != m) { std::printf("MISBEHAVIOUR: copy differs from its source: %s vs %s\n", show(contents(w)).c_str(), show(m).c_str()); bad = 1; } }
      else if (S.op == "move_ctor") { const void *d0 = v.data(); bool wasHeap = (long)v.capacity() > (long)R_N || R_FLAVOUR == 2; Vec w(std::move(v)); if (contents(w) != m) { std::printf("MISBEHAVIOUR: move-constructed vector differs from its source\n"); bad = 1; } if (R_FLAVOUR != 3 && wasHeap && S.get("heap") && w.data() != d0) { std::printf("MISBEHAVIOUR: heap buffer not handed over by the move constructor\n"); bad = 1; } m.clear(); }
      else if (S.op == "count_ctor") { L.copies = 0; Vec w(static_cast<typename Vec::size_type>(count), *arg); L.throwAt = -1; std::vector<int> mw((size_t)count, argv); if (contents(w) != mw) { std::printf("MISBEHAVIOUR: Vector(count, value) holds %s\n", show(contents(w)).c_str()); bad = 1; } }
      else if (S.op == "reserve") { v.reserve(static_cast<typename Vec::size_type>(count)); }
      else if (S.op == "shrink_to_fit") { v.shrink_to_fit(); }
#if R_FLAVOUR == R_FLAVOUR2 && R_N == R_N2
      else if (S.op == "op_assign_move") { v = std::move(o); m = mo; mo.clear(); }
      else if (S.op == "swap") { v.swap(o); std::swap(m, mo); }
#endif
      else if (S.op == "swap2") { v.swap2(o); std::swap(m, mo); }
      else { std::printf("unknown operation %s\n", S.op.c_str()); return 3; }
    } catch (const std::out_of_range &) { threw = true; what = "out_of_range"; }
    catch (const std::overflow_error &) { threw = true; what = "overflow_error"; }
    catch (const std::bad_alloc &) { threw = true; what = "bad_alloc"; }
    catch (const ElemThrow &) { threw = true; what = "element"; }
    L.throwAt = -1; A.failAt = -1;
    auto fail = [&](const std::string &s) { std::printf("  MISBEHAVIOUR: %s\n", s.c_str()); bad = 1; };
    if (threw) {
      m = before; mo = beforeO;
      // basic guarantee always; strong guarantee for the single-element / at-the-end operations
      bool strongOp = S.op.rfind("push_back", 0) == 0 || S.op.rfind("emplace", 0) == 0 || S.op == "insert_pE_rE" || S.op == "insert_pE_rrE" || S.op == "reserve" ||
                      S.op == "shrink_to_fit" || S.op.rfind("append", 0) == 0 || S.op.rfind("resize", 0) == 0 || what == "out_of_range" || what == "overflow_error";
      if (strongOp && contents(v) != m) fail("after the " + what + " exception the contents changed: " + show(contents(v)) + " expected " + show(m));
      if (two && (what == "out_of_range" || what == "overflow_error") && contents(o) != mo) fail("after the exception the other operand changed");
      if ((what == "out_of_range" || what == "overflow_error") && (v.capacity() != capBefore || v.data() != dataBefore) && !two) fail("capacity-limit error but capacity / storage changed");
    } else {
      if (contents(v) != m) fail("contents " + show(contents(v)) + " expected " + show(m));
      if (two && contents(o) != mo) fail("other operand contents " + show(contents(o)) + " expected " + show(mo));
      if (ret >= 0 && ret != pos) fail("returned position " + std::to_string(ret) + " expected " + std::to_string(pos));
      if (v.size() > v.capacity()) fail("size() > capacity()");
      if (!two && !otherObj && S.op != "shrink_to_fit" && v.capacity() < capBefore) fail("capacity decreased");
      if (!two && !otherObj && m.size() <= capBefore && S.op != "shrink_to_fit" && S.op != "reserve" && (v.data() != dataBefore || A.nalloc + A.nrealloc != allocsBefore)) fail("reallocation although the result fits the capacity");
#if R_FLAVOUR == 1
      if (!two && !otherObj && !S.get("heap") && (long)m.size() <= R_N && S.op != "reserve" && (A.nalloc + A.nrealloc != allocsBefore || v.capacity() != R_N)) fail("inline SmallVector within N allocated or reports capacity() != N");
#endif
    }
    for (const auto &e : v) e.checkAlive("visible element");
#if !R_TR
    for (const auto &e : v) if (L.alive.count(&e) && L.alive[&e] == 2) fail("a visible element is in a moved-from state");
#endif
    if (two) for (const auto &e : o) e.checkAlive("visible element of the other operand");
    // usability: one more push and a clear
    try { if (v.size() < v.max_size()) { v.emplace_back(1); v.pop_back(); } } catch (...) {}
  }
  if (L.liveCount != 0) { std::printf("  MISBEHAVIOUR: constructions and destructions do not balance (%ld)\n", L.liveCount); bad = 1; }
  if (!L.alive.empty()) { std::printf("  MISBEHAVIOUR: %zu element(s) still alive after all containers are gone\n", L.alive.size()); bad = 1; }
  if (!A.blocks.empty()) { std::printf("  MISBEHAVIOUR: %zu block(s) never handed back\n", A.blocks.size()); bad = 1; }
  for (auto &e : L.errors) { std::printf("  MISBEHAVIOUR: %s\n", e.c_str()); bad = 1; }
  return bad;
}

int main(int argc, char **argv) {
  Scenario S;
  for (int i = 1; i < argc; ++i) {
    std::string a = argv[i]; auto eq = a.find('=');
    if (eq == std::string::npos) continue;
    std::string k = a.substr(0, eq), val = a.substr(eq + 1);
    if (k == "op") S.op = val; else S.n[k] = std::atol(val.c_str());
  }
  std::printf("replay: op=%s size=%ld capa=%ld heap=%ld pos=%ld pos2=%ld count=%ld alias=%ld src=%ld\n", S.op.c_str(), S.get("size"), S.get("capa"), S.get("heap"), S.get("pos"), S.get("pos2"), S.get("count"), S.get("alias"), S.get("src"));
  int worst = runOnce(S, -1, -1);
  if (worst == 3) { std::printf("scenario not constructible through the public API\n"); return 3; }
  if (S.get("throws")) {          // every throw index of the scenario (element copies, then allocator calls)
    for (long k = 0; k < 600 && worst != 1; ++k) { int r = runOnce(S, k, -1); if (r == 1) { std::printf("  (element copy number %ld throws)\n", k); worst = 1; } if (L.copies <= k) break; }
    for (long k = 0; k < 8 && worst != 1; ++k) { int r = runOnce(S, -1, k); if (r == 1) { std::printf("  (allocator call number %ld fails)\n", k); worst = 1; } }
  }
  std::printf(worst == 1 ? "VIOLATION REPRODUCED on the real code\n" : "real code behaves as specified on this input\n");
  return worst == 1 ? 1 : 0;
}
