// Native replay of a counterexample of a BOUNDED set unit against the REAL headers: the concrete pre-state found by the verifier
// (comparator flavour, elements of both operands, their state) is rebuilt through the public API, the operation is performed on
// the real amc container with an instrumented non-trivially-relocatable element type, and the outcome is compared with std::set.
// usage: native_sets op=<fs_merge|fs_merge_other|fs_insert_range|fs_from_vector|ss_merge> tok=<0..3> [tok2=] a=1,2 b=3 [la=0|1 lb=0|1]
// exit 0 = behaves like std::set, 1 = misbehaviour reproduced, 3 = scenario cannot be built
#include <amc/flatset.hpp>
#include <amc/smallset.hpp>
#include <amc/vector.hpp>
#include <cstdio>
#include <cstdlib>
#include <cstring>
#include <map>
#include <set>
#include <string>
#include <vector>

static long g_live = 0;
struct El {
  int v; const El *self;
  El(int x = 0) : v(x), self(this) { ++g_live; }
  El(const El &o) : v(o.v), self(this) { ++g_live; }
  El(El &&o) noexcept : v(o.v), self(this) { o.v = -777; ++g_live; }
  El &operator=(const El &o) { v = o.v; return *this; }
  El &operator=(El &&o) noexcept { v = o.v; o.v = -777; return *this; }
  ~El() { --g_live; if (self != this) { std::printf("MISBEHAVIOUR: element relocated bytewise\n"); std::exit(1); } }
};
struct Cmp {
  int token = 0;
  bool operator()(const El &a, const El &b) const {
    int ka = (token & 2) ? (a.v >> 1) : a.v, kb = (token & 2) ? (b.v >> 1) : b.v;
    return (token & 1) ? ka > kb : ka < kb;
  }
};
struct Cmp2 : Cmp {};
static std::vector<int> parse(const char *s) { std::vector<int> r; if (!s || !*s) return r; std::string t(s); size_t p = 0; while (p <= t.size()) { size_t q = t.find(',', p); if (q == std::string::npos) q = t.size(); if (q > p) r.push_back(std::atoi(t.substr(p, q - p).c_str())); p = q + 1; } return r; }
template <class S> static std::vector<int> dump(const S &s) { std::vector<int> r; for (const auto &e : s) r.push_back(e.v); return r; }
static void show(const char *n, const std::vector<int> &v) { std::printf("  %s = {", n); for (size_t i = 0; i < v.size(); ++i) std::printf("%s%d", i ? "," : "", v[i]); std::printf("}\n"); }
template <class A, class B> static int compare(const char *what, const A &real, const B &model) {
  auto r = dump(real), m = dump(model);
  if (r != m) { std::printf("MISBEHAVIOUR: %s differs from std::set\n", what); show("amc", r); show("std", m); return 1; }
  for (int x : r) if (x == -777) { std::printf("MISBEHAVIOUR: moved-from element visible in %s\n", what); return 1; }
  return 0;
}
using FS8 = amc::FlatSet<El, Cmp, amc::allocator<El>, amc::vector<El, amc::allocator<El>, uint8_t>>;
using FS32 = amc::FlatSet<El, Cmp>;
using FS32o = amc::FlatSet<El, Cmp2>;
using SS = amc::SmallSet<El, 4, Cmp, amc::allocator<El>, FS32>;
template <class S, class M> static void fill_large(S &s, M &m, const std::vector<int> &v) {
  // a SmallSet in its large state holding exactly v: grow beyond N with extra elements, then erase them
  for (int x : v) { s.insert(El(x)); m.insert(El(x)); }
  std::vector<int> extra;
  for (int x = 100; s.size() < 5; x += 2) { if (s.insert(El(x)).second) extra.push_back(x); }
  for (int x : extra) s.erase(El(x));
}
int main(int argc, char **argv) {
  std::map<std::string, std::string> kv;
  for (int i = 1; i < argc; ++i) { const char *e = std::strchr(argv[i], '='); if (e) kv[std::string(argv[i], (size_t)(e - argv[i]))] = e + 1; }
  std::string op = kv["op"];
  Cmp c; c.token = std::atoi(kv["tok"].c_str());
  Cmp2 c2; c2.token = std::atoi(kv["tok2"].c_str());
  auto a = parse(kv["a"].c_str()), b = parse(kv["b"].c_str());
  bool la = kv["la"] == "1", lb = kv["lb"] == "1";
  int bad = 0;
  {
    if (op == "fs_merge") {
      FS8 x(c), y(c); std::set<El, Cmp> mx(c), my(c);
      for (int v : a) { x.insert(El(v)); mx.insert(El(v)); } for (int v : b) { y.insert(El(v)); my.insert(El(v)); }
      x.merge(y); mx.merge(my);
      bad |= compare("receiver after merge", x, mx) | compare("argument after merge", y, my);
    } else if (op == "fs_merge_other") {
      FS32 x(c); FS32o y(c2); std::set<El, Cmp> mx(c); std::set<El, Cmp2> my(c2);
      for (int v : a) { x.insert(El(v)); mx.insert(El(v)); } for (int v : b) { y.insert(El(v)); my.insert(El(v)); }
      x.merge(y); mx.merge(my);
      bad |= compare("receiver after merge", x, mx) | compare("argument after merge", y, my);
    } else if (op == "fs_insert_range") {
      FS8 x(c); std::set<El, Cmp> mx(c);
      for (int v : a) { x.insert(El(v)); mx.insert(El(v)); }
      std::vector<El> src; for (int v : b) src.emplace_back(v);
      x.insert(src.data(), src.data() + src.size()); mx.insert(src.begin(), src.end());
      auto r = dump(x), m = dump(mx);
      // classes must agree; representatives of classes already present must be the old elements
      if (r.size() != m.size()) { std::printf("MISBEHAVIOUR: size after insert(first,last) differs from std::set\n"); show("amc", r); show("std", m); bad = 1; }
      for (size_t i = 0; i < r.size() && i < m.size(); ++i) if (c(El(r[i]), El(m[i])) || c(El(m[i]), El(r[i]))) { std::printf("MISBEHAVIOUR: classes after insert(first,last) differ from std::set\n"); show("amc", r); show("std", m); bad = 1; break; }
      for (int v : a) { bool kept = false; for (int w : r) kept |= (w == v); if (!kept) { std::printf("MISBEHAVIOUR: element %d of the set was replaced\n", v); bad = 1; } }
    } else if (op == "fs_from_vector") {
      typename FS8::vector_type vec; for (int v : b) vec.emplace_back(v);
      std::set<El, Cmp> mx(c); for (int v : b) mx.insert(El(v));
      FS8 x(std::move(vec), c);
      auto r = dump(x), m = dump(mx);
      if (r.size() != m.size()) { std::printf("MISBEHAVIOUR: FlatSet(vector) holds %zu elements, std::set %zu\n", r.size(), m.size()); show("amc", r); show("std", m); bad = 1; }
      for (size_t i = 0; i + 1 < r.size(); ++i) if (!c(El(r[i]), El(r[i + 1]))) { std::printf("MISBEHAVIOUR: FlatSet(vector) not strictly increasing\n"); show("amc", r); bad = 1; }
    } else if (op == "ss_merge") {
      SS x, y; std::set<El, Cmp> mx(c), my(c);
      if (c.token != 0) { std::printf("scenario needs a comparator state the SmallSet API cannot install\n"); return 3; }
      if (la) fill_large(x, mx, a); else for (int v : a) { x.insert(El(v)); mx.insert(El(v)); }
      if (lb) fill_large(y, my, b); else for (int v : b) { y.insert(El(v)); my.insert(El(v)); }
      x.merge(y); mx.merge(my);
      auto sorted = [&](const SS &s) { std::set<El, Cmp> t(c); for (const auto &e : s) t.insert(e); return t; };
      if (x.size() != mx.size() || y.size() != my.size()) { std::printf("MISBEHAVIOUR: sizes after SmallSet::merge: amc %zu/%zu, std::set %zu/%zu\n", (size_t)x.size(), (size_t)y.size(), mx.size(), my.size()); bad = 1; }
      bad |= compare("receiver after merge", sorted(x), mx) | compare("argument after merge", sorted(y), my);
    } else { std::printf("unknown op\n"); return 3; }
  }
  if (g_live != 0) { std::printf("MISBEHAVIOUR: %ld element object(s) alive after every container is gone\n", g_live); bad = 1; }
  std::printf(bad ? "REPRODUCED\n" : "no misbehaviour for this input\n");
  return bad;
}
