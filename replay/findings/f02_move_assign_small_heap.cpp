// finding F02: move assignment of an inline source into a heap-backed destination whose (adopted) heap buffer is smaller
// than the source size writes past the heap block.
#include <amc/smallvector.hpp>
#include <amc/vector.hpp>
#include <cstdio>
int main() {
  amc::vector<int> v; v.reserve(2); v.push_back(1);
  amc::SmallVector<int, 8> a(std::move(v));          // adopts the 2-slot heap buffer: heap-backed with capacity 2 < N
  amc::SmallVector<int, 8> b{1, 2, 3, 4, 5, 6, 7, 8};  // inline, 8 elements
  a = std::move(b);                                   // writes 8 ints into a 2-int block
  if (a.size() != 8 || a.capacity() < a.size()) { std::printf("size %u capacity %u\n", (unsigned)a.size(), (unsigned)a.capacity()); return 1; }
  return 0;
}
