// finding F13: insert(node) that meets an equivalent element must leave the node owning its value (std::set); FlatSet and
// SmallSet reset the node unconditionally, so the value is destroyed.
#include <amc/flatset.hpp>
#include <amc/smallset.hpp>
#include <cstdio>
#include <string>
template <class S> static int run(const char *what) {
  S a{std::string("alpha-long-enough-to-allocate"), std::string("beta-long-enough-to-allocate")};
  S b{std::string("alpha-long-enough-to-allocate")};
  auto nh = b.extract(std::string("alpha-long-enough-to-allocate"));
  auto r = a.insert(std::move(nh));
  int bad = 0;
  if (r.inserted) { std::printf("%s: duplicate reported as inserted\n", what); bad = 1; }
  if (r.node.empty()) { std::printf("%s: the node lost its value\n", what); bad = 1; }
  else if (r.node.value() != "alpha-long-enough-to-allocate") { std::printf("%s: value changed\n", what); bad = 1; }
  auto nh2 = b.extract(std::string("nothing"));
  S c{std::string("x")}; auto n3 = c.extract(std::string("x"));
  auto it = a.insert(a.begin(), std::move(n3));           // new key through the hinted overload: node must be emptied
  if (!n3.empty() || *it != "x") { std::printf("%s: hinted insert of a new key\n", what); bad = 1; }
  S d{std::string("beta-long-enough-to-allocate")}; auto n4 = d.extract(std::string("beta-long-enough-to-allocate"));
  a.insert(a.begin(), std::move(n4));                     // duplicate through the hinted overload: node keeps its value
  if (n4.empty()) { std::printf("%s: hinted insert of a duplicate emptied the node\n", what); bad = 1; }
  return bad;
}
int main() {
  int bad = run<amc::FlatSet<std::string> >("FlatSet");
  bad |= run<amc::SmallSet<std::string, 4> >("SmallSet");
  return bad;
}
