// finding F01: SmallVector inline<-inline move assignment with a full destination leaves an unreachable word encoding:
// capacity() reports the old fill instead of N, the next push_back spills to the heap although size <= N.
#include <amc/smallvector.hpp>
#include <cstdio>
int main() {
  amc::SmallVector<int, 4> a{1, 2, 3, 4};   // inline, exactly full
  amc::SmallVector<int, 4> b{7};            // inline, partial
  a = std::move(b);
  int bad = 0;
  if (a.capacity() != 4) { std::printf("capacity() == %u, expected 4\n", (unsigned)a.capacity()); bad = 1; }
  const int *before = a.data();
  a.push_back(9);
  if (a.data() != before) { std::printf("push_back within N moved the elements to the heap\n"); bad = 1; }
  return bad;
}
