// finding F09: swap2 on the element-wise path exchanges the raw size words: a SmallVector that is, or becomes, exactly full
// inline ends up with an unreachable size/capacity encoding (capacity() wrong, later operations corrupt memory).
#include <amc/smallvector.hpp>
#include <amc/fixedcapacityvector.hpp>
#include <cstdio>
int main() {
  int bad = 0;
  { amc::SmallVector<int, 4> a{1, 2}; amc::SmallVector<int, 6> b{3, 4, 5, 6};
    a.swap2(b);   // a becomes exactly full inline
    if (a.size() != 4 || a.capacity() != 4 || b.size() != 2 || b.capacity() != 6) { std::printf("SV4/SV6: a %u/%u b %u/%u\n", (unsigned)a.size(), (unsigned)a.capacity(), (unsigned)b.size(), (unsigned)b.capacity()); bad = 1; } }
  { amc::SmallVector<int, 4> a{1, 2, 3, 4}; amc::FixedCapacityVector<int, 6> b{9};
    a.swap2(b);   // a was exactly full inline
    if (a.size() != 1 || a.capacity() != 4 || b.size() != 4) { std::printf("SV4/FCV6: a %u/%u b %u\n", (unsigned)a.size(), (unsigned)a.capacity(), (unsigned)b.size()); bad = 1; } }
  return bad;
}
