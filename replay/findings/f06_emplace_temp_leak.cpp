// finding F06: emplace_back / emplace on a full dynamic vector build the element in a temporary and then grow; when growing
// fails (size_type exhausted, allocation failure) the temporary is never destroyed.
#include <amc/smallvector.hpp>
#include <cstdio>
#include <cstdint>
#include <stdexcept>
static int live = 0;
struct Counted { Counted(int) { ++live; } Counted(const Counted &) { ++live; } Counted(Counted &&) noexcept { ++live; } ~Counted() { --live; }
                 Counted &operator=(const Counted &) = default; Counted &operator=(Counted &&) noexcept = default; };
int main() {
  {
    amc::SmallVector<Counted, 2, amc::allocator<Counted>, uint8_t> v;
    for (int i = 0; i < 255; ++i) v.emplace_back(i);
    try { v.emplace_back(1); std::printf("no exception\n"); return 2; } catch (const std::overflow_error &) {}
    try { v.emplace(v.begin() + 3, 1); std::printf("no exception\n"); return 2; } catch (const std::overflow_error &) {}
  }
  if (live != 0) { std::printf("%d element(s) never destroyed\n", live); return 1; }
  return 0;
}
