// finding F03: move assignment from a heap source into a heap destination whose size is 0 leaks the destination's buffer.
#include <amc/smallvector.hpp>
#include <cstdio>
#include <cstdlib>
static long live = 0;
struct CountingBasic {
  void *allocate(size_t n) { ++live; return std::malloc(n); }
  void *reallocate(void *p, size_t, size_t n) { return std::realloc(p, n); }
  void deallocate(void *p, size_t) { --live; std::free(p); }
};
using A = amc::BasicAllocatorWrapper<int, CountingBasic>;
int main() {
  {
    amc::SmallVector<int, 2, A> a{1, 2, 3};  // heap
    a.clear();                                // heap, size 0
    amc::SmallVector<int, 2, A> b{4, 5, 6};  // heap
    a = std::move(b);
  }
  if (live != 0) { std::printf("%ld block(s) never handed back\n", live); return 1; }
  return 0;
}
