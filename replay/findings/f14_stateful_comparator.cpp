// finding F14: duplicates are removed after a bulk insertion with a DEFAULT-CONSTRUCTED comparator (value_equi) instead of the
// comparator object the set was constructed with: with a stateful comparator equivalent elements survive.
#include <amc/flatset.hpp>
#include <cstdio>
#include <vector>
struct ModCmp {            // orders by value % mod; a default-constructed one (mod 0 -> plain <) is a different order
  int mod = 0;
  bool operator()(int a, int b) const { return mod ? (a % mod) < (b % mod) : a < b; }
};
int main() {
  std::vector<int> in{11, 25, 12, 27, 13};     // classes mod 2: {11,25,27,13} odd, {12} even
  amc::FlatSet<int, ModCmp> s(in.begin(), in.end(), ModCmp{2});
  if (s.size() != 2) { std::printf("range constructor kept %u elements, 2 equivalence classes expected\n", (unsigned)s.size()); return 1; }
  amc::FlatSet<int, ModCmp> t(ModCmp{2});
  t.insert(in.begin(), in.end());
  if (t.size() != 2) { std::printf("range insert kept %u elements\n", (unsigned)t.size()); return 1; }
  return 0;
}
