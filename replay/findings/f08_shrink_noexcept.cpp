// finding F08: StdVectorBase::shrink_impl is noexcept but reallocates: when the allocator fails during
// amc::vector::shrink_to_fit the process terminates instead of reporting std::bad_alloc with the vector unchanged.
#include <amc/vector.hpp>
#include <cstdio>
#include <cstdlib>
#include <new>
static bool failNext = false;
struct FailingBasic {
  void *allocate(size_t n) { if (failNext) throw std::bad_alloc(); return std::malloc(n); }
  void *reallocate(void *p, size_t, size_t n) { if (failNext) throw std::bad_alloc(); return std::realloc(p, n); }
  void deallocate(void *p, size_t) { std::free(p); }
};
int main() {
  std::set_terminate([] { std::printf("std::terminate called\n"); std::_Exit(1); });
  amc::vector<int, amc::BasicAllocatorWrapper<int, FailingBasic> > v;
  v.reserve(16); v.push_back(1); v.push_back(2);
  failNext = true;
  try { v.shrink_to_fit(); } catch (const std::bad_alloc &) { return (v.size() == 2 && v[0] == 1 && v[1] == 2) ? 0 : 3; }
  return 0;
}
