// C15: amc::uninitialized_default_construct_n (pre-C++17 emulation, trivially default constructible value type) has no return
// statement: flowing off the end of a value-returning function is undefined behaviour; std:: returns first + n.
// build: g++ -std=c++14 -O0 -I/repo/include f15_default_construct_n_return.cpp   (exit 1 = defect present)
#include <amc/memory.hpp>
#include <cstdio>
int main() {
  int buf[8] = {1, 2, 3, 4, 5, 6, 7, 8};
  int *volatile sink = nullptr;
  int *r = amc::uninitialized_default_construct_n(buf, 5);
  sink = r;
  if (sink != buf + 5) { std::printf("FAIL: returned %p, expected first + n = %p\n", (void *)sink, (void *)(buf + 5)); return 1; }
  int *r0 = amc::uninitialized_default_construct_n(buf, 0);
  if (r0 != buf) { std::printf("FAIL: n == 0 must return first\n"); return 1; }
  std::printf("OK\n");
  return 0;
}
