// finding F04: insert(pos, v) / insert(pos, n, v) with v referring to an element at or after pos reads the argument after
// the elements have been shifted: std::vector behaves as if v had been copied first.
#include <amc/smallvector.hpp>
#include <amc/vector.hpp>
#include <cstdio>
#include <string>
#include <vector>
template <class V> static std::string str(const V &v) { std::string s; for (auto &e : v) s += e + ","; return s; }
int main() {
  int bad = 0;
  for (int grow = 0; grow < 2; ++grow) {
    amc::vector<std::string> a; std::vector<std::string> r;
    for (const char *s : {"a-long-enough-string-0", "a-long-enough-string-1", "a-long-enough-string-2", "a-long-enough-string-3"}) { a.push_back(s); r.push_back(s); }
    if (!grow) { a.reserve(16); r.reserve(16); } else { a.shrink_to_fit(); r.shrink_to_fit(); }
    a.insert(a.begin() + 1, a[2]); r.insert(r.begin() + 1, r[2]);
    if (str(a) != str(r)) { std::printf("insert(pos, v) grow=%d: %s vs %s\n", grow, str(a).c_str(), str(r).c_str()); bad = 1; }
    if (!grow) { a.reserve(32); r.reserve(32); } else { a.shrink_to_fit(); r.shrink_to_fit(); }
    a.insert(a.begin() + 1, 2, a[3]); r.insert(r.begin() + 1, 2, r[3]);
    if (str(a) != str(r)) { std::printf("insert(pos, n, v) grow=%d: %s vs %s\n", grow, str(a).c_str(), str(r).c_str()); bad = 1; }
  }
  return bad;
}
