// finding F07: assign(n, v) growing within capacity constructs the new tail first and assigns the existing elements second;
// when a copy assignment throws, the tail elements lie beyond size() and are never destroyed.
#include <amc/vector.hpp>
#include <cstdio>
static int live = 0; static int countdown = -1;
struct Thrower {
  Thrower() { ++live; } Thrower(const Thrower &) { ++live; } Thrower(Thrower &&) noexcept { ++live; } ~Thrower() { --live; }
  Thrower &operator=(const Thrower &) { if (countdown >= 0 && countdown-- == 0) throw 1; return *this; }
  Thrower &operator=(Thrower &&) noexcept = default;
};
int main() {
  {
    amc::vector<Thrower> v; v.reserve(8); v.resize(3);
    Thrower x;
    countdown = 1;   // second copy assignment throws
    try { v.assign(6, x); std::printf("no exception\n"); return 2; } catch (int) {}
    if (v.size() != 3) { std::printf("size %u\n", (unsigned)v.size()); }
  }
  if (live != 0) { std::printf("%d element(s) never destroyed\n", live); return 1; }
  return 0;
}
