// C04: SmallSet<T, N, Compare, Alloc, FlatSet<...>>::extract(const_iterator) did not compile: the iterator of a FlatSet-backed
// SmallSet is a plain pointer, and extract(position) called position.toVecIt() / position.toSetIt() on it (erase(position) has the
// two SFINAE overloads, extract had only the std::set flavour).  Both backing sets must offer the same operations.
// build: g++ -std=c++17 -I/repo/include f16_smallset_extract_position_flatset.cpp   (compile error = defect present; exit 0 = fixed)
#include <amc/flatset.hpp>
#include <amc/smallset.hpp>
#include <cstdio>
#include <set>
template <class S> static int run() {
  int bad = 0;
  for (int n : {3, 8}) {            // inline state and large state
    S s; std::set<int> m;
    for (int i = 0; i < n; ++i) { s.insert(i * 2); m.insert(i * 2); }
    auto it = s.find(2);
    auto node = s.extract(it);
    m.erase(2);
    if (!node || node.value() != 2 || s.size() != m.size() || s.contains(2)) { std::printf("FAIL n=%d\n", n); bad = 1; }
    for (int v : m) if (!s.contains(v)) { std::printf("FAIL lost %d\n", v); bad = 1; }
  }
  return bad;
}
int main() {
  int bad = run<amc::SmallSet<int, 4>>();
  bad |= run<amc::SmallSet<int, 4, std::less<int>, amc::allocator<int>, amc::FlatSet<int>>>();
  std::printf(bad ? "FAIL\n" : "OK\n");
  return bad;
}
