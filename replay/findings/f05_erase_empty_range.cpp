// finding F05: erase(first, first) (empty range) on a non trivially relocatable type move-assigns every element of the tail
// onto itself; std::vector performs no element operation.
#include <amc/vector.hpp>
#include <cstdio>
struct Probe {
  int v; static int selfMoves;
  Probe(int x = 0) : v(x) {}
  Probe(const Probe &) = default; Probe(Probe &&) noexcept = default; Probe &operator=(const Probe &) = default;
  Probe &operator=(Probe &&o) noexcept { if (this == &o) ++selfMoves; v = o.v; return *this; }
  ~Probe() {}
};
int Probe::selfMoves = 0;
int main() {
  amc::vector<Probe> a; for (int i = 0; i < 5; ++i) a.push_back(Probe(i));
  a.erase(a.begin() + 1, a.begin() + 1);
  if (Probe::selfMoves) { std::printf("%d self move-assignments\n", Probe::selfMoves); return 1; }
  return 0;
}
