// finding F12: SmallSet::erase(position) that removes the last element of a set in its large state returns the end() of the
// large container, while end() of the SmallSet - now back in its inline state - is another iterator: the standard
// erase-while-iterating loop never meets end().
#include <amc/smallset.hpp>
#include <amc/flatset.hpp>
#include <cstdio>
template <class S> static int run(const char *what) {
  S s;
  for (int i = 0; i < 5; ++i) s.insert(i);           // N = 3: large state
  int steps = 0;
  for (auto it = s.begin(); it != s.end() && steps < 100;) { it = s.erase(it); ++steps; }
  if (steps != 5 || !s.empty()) { std::printf("%s: loop made %d steps, size %u\n", what, steps, (unsigned)s.size()); return 1; }
  return 0;
}
int main() {
  int bad = 0;
  bad |= run<amc::SmallSet<int, 3, std::less<int>, amc::allocator<int>, amc::FlatSet<int> > >("FlatSet backed");
  bad |= run<amc::SmallSet<int, 3> >("std::set backed");
  return bad;
}
