// finding F11: swap2 of two heap-backed vectors with different size_types throws std::overflow_error from swap_sizetype
// inside swap2_impl, which is noexcept: the process terminates, although the elements could be exchanged one by one.
#include <amc/vector.hpp>
#include <cstdio>
#include <cstdlib>
#include <cstdint>
#include <stdexcept>
int main() {
  std::set_terminate([] { std::printf("std::terminate called\n"); std::_Exit(1); });
  amc::vector<int, amc::allocator<int>, uint8_t> a; a.push_back(1); a.push_back(2);
  amc::vector<int> b; b.reserve(1000); b.push_back(5);
  // the sizes (2 and 1) fit both size_types: the exchange is possible, element by element
  try { a.swap2(b); } catch (const std::overflow_error &) { std::printf("overflow_error although the exchange is possible\n"); return 2; }
  return (b.size() == 2 && b[0] == 1 && b[1] == 2 && a.size() == 1 && a[0] == 5) ? 0 : 3;
}
