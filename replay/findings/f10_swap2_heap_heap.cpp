// finding F10: swap2 of two heap-backed vectors (at least one SmallVector) exchanges the buffers and capacities and only then
// reads the size words through msize(), which consults isSmall(): when the incoming capacity is smaller than the receiver's
// current size the SmallVector misreads itself as inline; sizes end up wrong and a buffer is leaked.
#include <amc/smallvector.hpp>
#include <cstdio>
#include <numeric>
int main() {
  amc::SmallVector<int, 2> a(15); std::iota(a.begin(), a.end(), 0); a.reserve(20);   // heap: size 15, capacity 20
  amc::SmallVector<int, 3> b{7, 8, 9, 10}; b.reserve(10);                              // heap: size 4, capacity 10
  a.swap2(b);
  int bad = 0;
  if (a.size() != 4 || b.size() != 15) { std::printf("sizes after swap2: %u and %u (expected 4 and 15)\n", (unsigned)a.size(), (unsigned)b.size()); bad = 1; }
  if (!bad) for (int i = 0; i < 15; ++i) if (b[i] != i) bad = 1;
  return bad;
}
