// Native replay for C15 (real memory.hpp, compiled as C++14 and C++17).  Used by tools/check.py ONLY after the verifier has reported a
// loop without a loop contract inside one of the memory algorithms under contract (an obligation `<function>.unwind.<k>` that does
// not exist on the unchanged tree): the element categories of the proof have non-throwing moves, so a candidate that needs a throwing
// move to show is replayed here.  Every algorithm x range length 0..4 x throw index (none, 0..len-1) on an element type with a
// live-object ledger, throwing copy / move / default constructors and no trivial relocation.  Prints `FAIL ...` and exits 1 when the
// real code departs from the standard semantics stated in the property, exits 0 otherwise (the verdict then stays "undecided").
#include <amc/memory.hpp>
#include <cstdio>
#include <cstdlib>
#include <new>
#include <set>
#include <stdexcept>
#include <utility>

static std::set<const void *> g_live;
static int g_countdown = -1;      // the (g_countdown+1)-th construction throws; -1: never
static void maybe_throw() { if (g_countdown == 0) { g_countdown = -1; throw std::runtime_error("ctor"); } if (g_countdown > 0) --g_countdown; }
struct T {
  int v; bool moved;
  T() : v(0), moved(false) { maybe_throw(); g_live.insert(this); }
  explicit T(int x) : v(x), moved(false) { g_live.insert(this); }
  T(const T &o) : v(o.v), moved(false) { maybe_throw(); g_live.insert(this); }
  T(T &&o) : v(o.v), moved(false) { maybe_throw(); o.moved = true; g_live.insert(this); }
  T &operator=(const T &o) { v = o.v; moved = false; return *this; }
  ~T() { if (!g_live.erase(this)) { std::printf("FAIL destruction of an object that is not alive\n"); std::exit(1); } }
};
static int g_fail = 0;
static void fail(const char *alg, int len, int thr, const char *what) { if (g_fail++ < 12) std::printf("FAIL algorithm=%s length=%d throw_at_construction=%d: %s\n", alg, len, thr, what); }
static bool alive(const T *p) { return g_live.count(p) != 0; }

enum Alg { COPY, COPY_N, MOVE, MOVE_N, RELOC, RELOC_N, VALUE, VALUE_N, DEFLT, DEFLT_N, NALG };
static const char *NAMES[] = {"uninitialized_copy", "uninitialized_copy_n", "uninitialized_move", "uninitialized_move_n", "uninitialized_relocate",
                              "uninitialized_relocate_n", "uninitialized_value_construct", "uninitialized_value_construct_n",
                              "uninitialized_default_construct", "uninitialized_default_construct_n"};

static void one(Alg a, int len, int thr) {
  alignas(T) unsigned char sraw[8 * sizeof(T)], draw[8 * sizeof(T)];
  T *src = reinterpret_cast<T *>(sraw), *dst = reinterpret_cast<T *>(draw);
  bool has_src = a <= RELOC_N;
  g_countdown = -1;
  if (has_src) for (int i = 0; i < len; ++i) new (src + i) T(100 + i);
  g_countdown = thr;
  bool threw = false; T *ret = nullptr; T *ret_src = nullptr; bool has_ret = true, has_ret_src = false;
  try {
    switch (a) {
      case COPY: ret = amc::uninitialized_copy(src, src + len, dst); break;
      case COPY_N: ret = amc::uninitialized_copy_n(src, len, dst); break;
      case MOVE: ret = amc::uninitialized_move(src, src + len, dst); break;
      case MOVE_N: { auto r = amc::uninitialized_move_n(src, len, dst); ret_src = r.first; ret = r.second; has_ret_src = true; } break;
      case RELOC: ret = amc::uninitialized_relocate(src, src + len, dst); break;
      case RELOC_N: { auto r = amc::uninitialized_relocate_n(src, len, dst); ret_src = r.first; ret = r.second; has_ret_src = true; } break;
      case VALUE: amc::uninitialized_value_construct(dst, dst + len); has_ret = false; break;
      case VALUE_N: ret = amc::uninitialized_value_construct_n(dst, len); break;
      case DEFLT: amc::uninitialized_default_construct(dst, dst + len); has_ret = false; break;
      case DEFLT_N: ret = amc::uninitialized_default_construct_n(dst, len); break;
      default: break;
    }
  } catch (const std::runtime_error &) { threw = true; }
  g_countdown = -1;
  bool reloc = a == RELOC || a == RELOC_N;
  if (threw != (thr >= 0 && thr < len)) fail(NAMES[a], len, thr, "an exception escapes exactly when a constructor throws");
  if (threw) {
    for (int i = 0; i < len; ++i) if (alive(dst + i)) { fail(NAMES[a], len, thr, "after a throw every object the algorithm created is destroyed again"); break; }
    if (has_src) for (int i = 0; i < len; ++i) if (!alive(src + i)) { fail(NAMES[a], len, thr, "after a throw the sources stay alive"); break; }
  } else {
    if (has_ret && ret != dst + len) fail(NAMES[a], len, thr, "returned destination iterator is first + n");
    if (has_ret_src && ret_src != src + len) fail(NAMES[a], len, thr, "returned source iterator is first + n");
    for (int i = 0; i < len; ++i) {
      if (!alive(dst + i)) { fail(NAMES[a], len, thr, "every destination object is alive"); break; }
      if (has_src && dst[i].v != 100 + i) { fail(NAMES[a], len, thr, "destination j holds the value of source j"); break; }
      if ((a == VALUE || a == VALUE_N) && dst[i].v != 0) { fail(NAMES[a], len, thr, "value-initialised"); break; }
    }
    if (has_src) for (int i = 0; i < len; ++i) if (alive(src + i) == reloc) { fail(NAMES[a], len, thr, reloc ? "the sources of a relocate are destroyed" : "the sources stay alive"); break; }
  }
  for (int i = 0; i < 8; ++i) { if (alive(dst + i)) dst[i].~T(); if (alive(src + i)) src[i].~T(); }
  if (!g_live.empty()) { fail(NAMES[a], len, thr, "an object outside the ranges was created"); g_live.clear(); }
}

int main() {
  for (int a = 0; a < NALG; ++a)
    for (int len = 0; len <= 4; ++len)
      for (int thr = -1; thr < len; ++thr) one((Alg)a, len, thr);
  if (g_fail) { std::printf("%d failing inputs\n", g_fail); return 1; }
  std::printf("OK: every algorithm behaved as the standard one on the inputs explored\n");
  return 0;
}
